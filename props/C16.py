"""C16 — loggers are safe to write to from many threads at once.

Real threads run under the line-granular scheduler (lib/linesched.py) restricted to
eliot/_output.py; the logger's ``_lock`` is replaced by a scheduler-aware lock of identical
semantics.  Families:

  memlogger          one (program, seed-chosen random schedule) per case
  memlogger_preempt  one small program per case, run under EVERY single-preemption schedule
                     (thread A stopped before each of its traced lines, the others run to
                     completion in every order, then A) -- obs["n_runs"] schedules per case
  file / file_preempt   the same two for concurrent FileDestination calls on a recording file
  file_stress        thorough only, supplementary, NOT a proof: 16 unscheduled threads, real file

The model (coq/Model/MemLogger.v) replays the calls atomically in the order the implementation
run linearised them (lock-acquisition order).  The executable statement checks, from the
property text: every write recorded exactly once (unless a reset follows it in that order),
zip(messages, serializers) is exactly the written pairs, tracebackMessages consistent, and every
validate()/serialize()/flush_tracebacks() return value is the one a serial run gives.
"""
import json
import os
import re

from lib.framework import Family
from lib.coqbridge import to_coq, Nat, NN, C, Raw

ID = "C16"
PROPS_FILE = "Props/C16.v"
TRUSTED = [
    "threading.Lock mutual exclusion (the scheduler-aware lock that replaces logger._lock has the same semantics and reports "
    "contention instead of blocking)",
    "file half: CPython executes one file.write(bytes) call atomically with respect to other threads (GIL / BufferedWriter lock); "
    "the model's Write event is atomic by definition -- this runtime fact is exercised by file_stress, not provable",
    "thread switches happen only between traced source lines of eliot/_output.py (code called from there, e.g. _validation.py, "
    "json encoding, list.append, runs atomically within its line)",
]
ASSUMPTIONS = [
    "stored message dictionaries are distinct objects written once each (the model identifies a message by its id)",
    "validate()/serialize() are modelled as reading zip(messages, serializers) in one step; under the lock this is exact",
]
RULE = ("memlogger: 2-3 threads x 1-4 generated calls (write with None / traceback / MessageType serializer, valid or invalid; "
        "validate; serialize; flush_tracebacks(cls); reset), one random segment schedule per case; memlogger_preempt: fixed corpus "
        "(write|write, reset|write, validate|flush, serialize|write, flush|write ...) plus small generated programs under every "
        "single-preemption schedule; non-trivial = a thread asked for the lock while another was inside its critical section, "
        "or (file) two calls overlapped; distinct by program and executed lock order")
LEVEL_TEXT = ("Coq theorems for ALL thread programs and ALL schedules: serializability of lock-protected calls (generic), MemoryLogger "
              "pairing / traceback-list consistency / exactly-once at every observation point, refutation of the same bodies "
              "without the lock, FileDestination lines form a permutation of the written lines (and the two-write variant refuted); "
              "correspondence: final attributes and every call's return value of real scheduled runs equal the model's atomic "
              "replay in lock-acquisition order; executable statement on every run.")
LEVEL_NOTE = ("Partial for the file half: atomicity of a single file.write between OS threads is a runtime fact outside the model "
              "(exercised by the thorough-tier stress run, which is not a proof).  Trusted: Coq kernel; model Base/Interleave + "
              "Model/MemLogger tied by correspondence; threading.Lock semantics; switch points = traced lines of _output.py.")

OUTPUT_FILES = ("eliot/_output.py",)
EXC_NAMES = ["Exception", "LookupError", "KeyError", "ValueError", "ZeroDivisionError"]
SER_CODE = {"none": 0, "tb": 1, "t0": 2, "t1": 3}
ERR_OF = {"EValidation": "ValidationError", "EType": "TypeError", "EAttribute": "AttributeError"}


# ---------------------------------------------------------------- calls
# call := ["write", id, ser, shape, reason] | ["validate"] | ["serialize"] | ["flush", cls] | ["reset"]
#   ser in none|tb|t0|t1; shape in ok|extra (unexpected field: ValidationError)|badjson (TypeError); reason = exception class index

def _failed_list(logger):
    """the logger's record of failed validations (a list of str), whatever the attribute is called"""
    v = getattr(logger, "_failed_validations", None)
    if isinstance(v, list):
        return v
    for k, val in vars(logger).items():
        if k not in ("messages", "serializers", "tracebackMessages") and isinstance(val, list) and all(isinstance(x, str) for x in val):
            return val
    return []

def verdict(call):
    _, _, ser, shape, _ = call
    if shape == "extra" and ser in ("t0", "t1"):
        return "VValidation"
    if shape == "badjson" and ser == "none":
        return "VType"
    return "VOk"


def isinst(r, c):
    return c == 0 or r == c or (c == 1 and r == 2)


class Ref(object):
    """what a single thread sees when it makes the calls one after the other (read off eliot/_output.py)"""

    def __init__(self):
        self.pairs, self.tb, self.failed, self.cooked, self.info = [], [], [], set(), {}

    def copy(self):
        r = Ref()
        r.pairs, r.tb, r.failed, r.cooked, r.info = list(self.pairs), list(self.tb), list(self.failed), set(self.cooked), self.info
        return r

    def sig(self):
        return (tuple(self.pairs), tuple(self.tb), tuple(self.failed), tuple(sorted(self.cooked)))

    def apply(self, call):
        k = call[0]
        if k == "write":
            _, i, ser, shape, reason = call
            self.info = dict(self.info)
            self.info[i] = (verdict(call), reason)
            if verdict(call) != "VOk":
                self.failed.append(i)
            self.pairs.append((i, SER_CODE[ser]))
            if ser == "tb":
                self.tb.append(i)
            return ["ok"]
        if k == "validate":
            for i, z in self.pairs:
                v = self.info[i][0]
                if z == 1:
                    if i in self.cooked:
                        return ["raised", "AttributeError"]
                    self.cooked.add(i)
                elif v == "VValidation":
                    return ["raised", "ValidationError"]
                elif v == "VType":
                    return ["raised", "TypeError"]
            return ["ok"]
        if k == "serialize":
            out = []
            for i, z in self.pairs:
                if z == 0 or (z == 1 and i in self.cooked):
                    return ["raised", "AttributeError"]
                out.append(i)
            return ["ids", out]
        if k == "flush":
            hit = [i for i in self.tb if isinst(self.info[i][1], call[1]) and i not in self.cooked]
            self.tb = [i for i in self.tb if i not in hit]
            return ["ids", hit]
        if k == "reset":
            self.pairs, self.tb, self.failed = [], [], []
            return ["ok"]
        raise ValueError(call)

    def final(self):
        return {"messages": [i for i, _ in self.pairs], "serializers": [z for _, z in self.pairs],
                "tracebacks": list(self.tb), "failed": list(self.failed)}


def replay(threads, order):
    """-> (final, per-thread rets) of the calls run atomically in `order` ([thread, index] pairs), or None if not a valid order"""
    ref = Ref()
    pos = [0] * len(threads)
    rets = [[] for _ in threads]
    for t, ci in order:
        if ci != pos[t] or ci >= len(threads[t]):
            return None
        pos[t] += 1
        rets[t].append(ref.apply(threads[t][ci]))
    if pos != [len(th) for th in threads]:
        return None
    return ref.final(), rets


def find_linearization(threads, rets, spans, final, budget=200000):
    """some serial order consistent with program order and real-time order that explains every return value and the final state"""
    n = len(threads)
    seen = set()
    count = [0]

    def go(pos, ref, acc):
        count[0] += 1
        if count[0] > budget:
            return None
        if all(pos[t] == len(threads[t]) for t in range(n)):
            return list(acc) if ref.final() == final else None
        key = (tuple(pos), ref.sig())
        if key in seen:
            return None
        seen.add(key)
        for t in range(n):
            ci = pos[t]
            if ci >= len(threads[t]) or ci >= len(rets[t]):
                continue
            start = spans[t][ci][0]
            if any(u != t and pos[u] < len(threads[u]) and pos[u] < len(spans[u]) and spans[u][pos[u]][1] < start for u in range(n)):
                continue        # a call that had returned before this one started must come first
            r2 = ref.copy()
            if r2.apply(threads[t][ci]) != rets[t][ci]:
                continue
            pos[t] += 1
            acc.append([t, ci])
            got = go(pos, r2, acc)
            if got is not None:
                return got
            acc.pop()
            pos[t] -= 1
        return None
    return go([0] * n, Ref(), [])


# ---------------------------------------------------------------- real runs
_TYPES = {}


def _types():
    if not _TYPES:
        from eliot import MessageType, Field
        for k in (0, 1):
            _TYPES["t%d" % k] = MessageType("c16:type%d" % k, [Field.for_types("id", [int], ""), Field.for_types("x", [int], "")], "")
    return _TYPES


def _make_lock(sched):
    from lib.linesched import SchedLock

    class ObsLock(SchedLock):
        """SchedLock that also logs contention (a thread asking while another is inside) and where the holder stands"""

        def acquire(self, blocking=True, timeout=-1):
            if blocking and self.locked_ and self.sched.me() is not None:
                pos = self.sched.last_pos[self.holder] if self.holder is not None else None
                self.sched.log("contend", list(pos) if pos else None)
            return SchedLock.acquire(self, blocking, timeout)
        __enter__ = acquire
    return ObsLock(sched, "memlogger")


def run_mem(threads, schedule):
    """one scheduled run of the thread programs on a fresh real MemoryLogger"""
    from lib.linesched import LineScheduler, Deadlock
    from eliot import MemoryLogger
    from eliot._traceback import TRACEBACK_MESSAGE
    import builtins
    types = _types()
    sers = {"none": None, "tb": TRACEBACK_MESSAGE._serializer, "t0": types["t0"]._serializer, "t1": types["t1"]._serializer}
    s = LineScheduler(files=OUTPUT_FILES)
    logger = MemoryLogger()
    # replace the logger's lock, whatever attribute holds it (a rename must not turn into a hang)
    import threading as _th
    _replaced = False
    for _name, _val in list(vars(logger).items()):
        if isinstance(_val, type(_th.Lock())) or isinstance(_val, type(_th.RLock())):
            setattr(logger, _name, _make_lock(s))
            _replaced = True
    if not _replaced:
        logger._lock = _make_lock(s)
    spans = [[] for _ in threads]

    def build(call):
        _, i, ser, shape, reason = call
        if ser == "tb":
            cls = getattr(builtins, EXC_NAMES[reason])
            return {"message_type": "eliot:traceback", "reason": cls("boom%d" % i), "traceback": "tb", "exception": cls, "id": i}
        if ser == "none":
            d = {"message_type": "c16:plain", "id": i}
            if shape == "badjson":
                d["bad"] = object()
            return d
        d = {"message_type": "c16:type%s" % ser[1], "id": i, "x": i}
        if shape == "extra":
            d["unexpected"] = 1
        return d

    def do(call):
        k = call[0]
        try:
            if k == "write":
                logger.write(build(call), sers[call[2]])
                return ["ok"]
            if k == "validate":
                logger.validate()
                return ["ok"]
            if k == "serialize":
                return ["ids", [d.get("id") for d in logger.serialize()]]
            if k == "flush":
                return ["ids", [d.get("id") for d in logger.flush_tracebacks(getattr(builtins, EXC_NAMES[call[1]]))]]
            if k == "reset":
                logger.reset()
                return ["ok"]
        except Exception as e:
            return ["raised", type(e).__name__]
        raise ValueError(call)

    def make(t):
        def body():
            out = []
            for call in threads[t]:
                start = len(s.trace)
                out.append(do(call))
                spans[t].append([start, len(s.trace)])
            return out
        return body
    try:
        trace = s.run([make(t) for t in range(len(threads))], schedule)
    except Deadlock as e:
        return {"hang": str(e)[:300]}
    rets = []
    for r in s.results:
        if r is None or r[0] != "ok":
            return {"hang": "thread died: %r" % (r,)}
        rets.append(r[1])
    code = {id(v): SER_CODE[k] for k, v in sers.items() if v is not None}

    def ser_code(z):
        return 0 if z is None else code.get(id(z), -1)

    def fid(text):
        m = re.search(r"'id': (\d+)", text)
        return int(m.group(1)) if m else -1
    final = {"messages": [m.get("id") for m in logger.messages], "serializers": [ser_code(z) for z in logger.serializers],
             "tracebacks": [m.get("id") for m in logger.tracebackMessages], "failed": [fid(x) for x in _failed_list(logger)]}
    acquired = [t for kind, t, _ in s.events if kind == "acquire"]
    contend = [info for kind, t, info in s.events if kind == "contend"]
    # linearisation: the lock-acquisition order when every call took the lock exactly once, else any order that explains the run
    order, how = None, None
    if [acquired.count(t) for t in range(len(threads))] == [len(th) for th in threads]:
        pos = [0] * len(threads)
        cand = []
        for t in acquired:
            cand.append([t, pos[t]])
            pos[t] += 1
        if replay(threads, cand) == (final, rets):
            order, how = cand, "lock"
    if order is None:
        order = find_linearization(threads, rets, spans, final)
        how = "search" if order is not None else None
    return {"final": final, "rets": rets, "spans": spans, "acquired": acquired, "order": order, "how": how,
            "contended": len(contend), "holder_at": sorted({"%s:%s" % (c[2], c[1]) for c in contend if c}),
            "steps": len(trace), "per_thread_steps": [trace.count(t) for t in range(len(threads))], "trace": _rle(trace)}


def _rle(trace):
    out = []
    for t in trace:
        if out and out[-1][0] == t:
            out[-1][1] += 1
        else:
            out.append([t, 1])
    return out


def _flat(segs):
    out = []
    for t, n in segs:
        out += [t] * n
    return out


def preempt_schedules(nthreads, steps, only=None):
    """every single-preemption schedule: A runs k grants, the others run to completion in each order, then A"""
    import itertools
    out = []
    for a in range(nthreads):
        others = [u for u in range(nthreads) if u != a]
        for k in range(1, steps[a]):
            if only is not None and (a, k) not in only:
                continue
            for perm in itertools.permutations(others):
                out.append([[a, k]] + [[u, steps[u] + 4] for u in perm] + [[a, steps[a] + 4]])
    return out


def impl_mem(case):
    return {"runs": [run_mem(case["threads"], _flat(case["sched"]))], "n_runs": 1}


def impl_mem_preempt(case):
    threads = case["threads"]
    n = len(threads)
    # sequential dry run (thread 0 to the end, then 1, ...) to learn how many traced lines each thread executes
    dry = run_mem(threads, _flat([[t, 5000] for t in range(n)]))
    if "hang" in dry:
        return {"runs": [dry], "n_runs": 1}
    steps = dry["per_thread_steps"]
    runs = [run_mem(threads, []), dry]          # round-robin, sequential
    hung = 0
    for segs in preempt_schedules(n, steps):
        runs.append(run_mem(threads, _flat(segs)))
        if "hang" in runs[-1]:
            hung += 1
            if hung >= 4:       # a tree on which these calls dead-lock: four hung schedules are reported, the rest skipped
                break
    for r in runs:
        r.pop("trace", None)
    return {"runs": runs, "n_runs": len(runs)}


# ---------------------------------------------------------------- model side
def c_call(call):
    k = call[0]
    if k == "write":
        _, i, ser, shape, reason = call
        z = {"none": "SNone", "tb": "STraceback", "t0": "(SType 0)", "t1": "(SType 1)"}[ser]
        return "(MWrite (mkMsg %d %d %s) %s)" % (i, reason, verdict(call), z)
    if k == "validate":
        return "MValidate"
    if k == "serialize":
        return "MSerialize"
    if k == "flush":
        return "(MFlush %d)" % call[1]
    if k == "reset":
        return "MReset"
    raise ValueError(call)


def m_ret(v):
    if v == "RUnit":
        return ["ok"]
    if isinstance(v, tuple) and v[0] == "RErr":
        return ["raised", ERR_OF[v[1]]]
    if isinstance(v, tuple) and v[0] == "RIds":
        return ["ids", list(v[1])]
    raise ValueError(v)


def _fallback_order(threads, run):
    acquired = run.get("acquired") or []
    if [acquired.count(t) for t in range(len(threads))] == [len(th) for th in threads]:
        pos = [0] * len(threads)
        out = []
        for t in acquired:
            out.append([t, pos[t]])
            pos[t] += 1
        return out
    return [[t, i] for t in range(len(threads)) for i in range(len(threads[t]))]


def post_mem(cases, obs_list):
    from lib import coqbridge
    exprs, where, cache = [], [], {}
    for ci, (case, obs) in enumerate(zip(cases, obs_list)):
        for ri, run in enumerate(obs["runs"]):
            if "hang" in run:
                continue
            order = run["order"] if run["order"] is not None else _fallback_order(case["threads"], run)
            e = "observe_serial [%s]" % "; ".join("(%d, %s)" % (t, c_call(case["threads"][t][i])) for t, i in order)
            if e not in cache:
                cache[e] = len(exprs)
                exprs.append(e)
            where.append((ci, ri, cache[e]))
    vals = coqbridge.eval_in_coq(["Base.Interleave", "Model.MemLogger"], exprs, shard=60, jobs=12)
    out = [{"runs": [None] * len(o["runs"])} for o in obs_list]
    for ci, ri, k in where:
        state, rs = vals[k]
        (((msgs, sers), tbs), failed) = state
        rets = [[] for _ in cases[ci]["threads"]]
        for t, r in rs:
            rets[t].append(m_ret(r))
        out[ci]["runs"][ri] = {"final": {"messages": msgs, "serializers": sers, "tracebacks": tbs, "failed": failed}, "rets": rets}
    return out


def project_mem(case, obs):
    return {"runs": [None if "hang" in r else {"final": r["final"], "rets": r["rets"]} for r in obs["runs"]]}


# ---------------------------------------------------------------- executable statement (memlogger)
def check_run(threads, run):
    if "hang" in run:
        return "run did not finish: %s" % run["hang"]
    final, rets = run["final"], run["rets"]
    written = {c[1]: c for th in threads for c in th if c[0] == "write"}
    has_reset = any(c[0] == "reset" for th in threads for c in th)
    msgs, sers, tbs = final["messages"], final["serializers"], final["tracebacks"]
    # recorded exactly once, each with its own serializer
    if len(msgs) != len(sers):
        return "messages has %d entries, serializers %d: %r / %r" % (len(msgs), len(sers), msgs, sers)
    for i in set(msgs):
        if msgs.count(i) != 1:
            return "message %r recorded %d times" % (i, msgs.count(i))
        if i not in written:
            return "message %r was never written" % (i,)
    for i, z in zip(msgs, sers):
        if z != SER_CODE[written[i][2]]:
            return "message %d is stored next to another write's serializer (code %d, written with %s): messages=%r serializers=%r" % (
                i, z, written[i][2], msgs, sers)
    if not has_reset:
        for i in written:
            if i not in msgs:
                return "write of message %d was dropped: messages=%r" % (i, msgs)
    # traceback list
    for i in tbs:
        if tbs.count(i) != 1 or i not in msgs or written[i][2] != "tb":
            return "tracebackMessages inconsistent with messages: %r vs %r" % (tbs, msgs)
    if [i for i in msgs if i in tbs] != tbs:
        return "tracebackMessages out of order: %r vs messages %r" % (tbs, msgs)
    # observers: never an error that only a half-updated logger can produce
    for t, th in enumerate(threads):
        if len(rets[t]) != len(th):
            return "thread %d made %d of %d calls" % (t, len(rets[t]), len(th))
        for call, r in zip(th, rets[t]):
            if r[0] == "raised" and r[1] in ("IndexError", "KeyError", "RuntimeError"):
                return "%s() raised %s" % (call[0], r[1])
            if call[0] in ("write", "reset", "flush") and r[0] == "raised":
                return "%s() raised %s" % (call[0], r[1])
    # every return value and the final attributes are those of one serial order of the calls
    order = run["order"]
    if order is None:
        return ("no serial order of the calls (respecting each thread's order and real time) explains the run: rets=%r final=%r"
                % (rets, final))
    got = replay(threads, order)
    if got is None:
        return "recorded order %r is not an order of the program's calls" % (order,)
    if got != (final, rets):
        return "serial replay in order %r gives %r, the run gave %r" % (order, got, (final, rets))
    spans = run["spans"]
    for a in range(len(order)):
        for b in range(a + 1, len(order)):
            (ta, ia), (tb_, ib) = order[a], order[b]
            if spans[tb_][ib][1] < spans[ta][ia][0]:
                return "order %r puts call %r before %r, which had returned before it started" % (order, order[a], order[b])
    # serialize() saw every message with its serializer: its result is the list of messages at its linearisation point
    ref = Ref()
    for t, i in order:
        call = threads[t][i]
        before = [p[0] for p in ref.pairs]
        r = ref.apply(call)
        if call[0] == "serialize" and r[0] == "ids" and r[1] != before:
            return "serialize() returned %r with messages %r" % (r[1], before)
    return None


def oracle_mem(case, obs):
    for k, run in enumerate(obs["runs"]):
        bad = check_run(case["threads"], run)
        if bad:
            return "schedule %d: %s" % (k, bad)
    return None


def nontrivial_mem(case, obs):
    if not isinstance(obs, dict) or "runs" not in obs:
        return None
    keys = set()
    for r in obs["runs"]:
        if "hang" not in r and r["contended"]:
            keys.add(json.dumps(r["acquired"]))
    if not keys:
        return None
    return json.dumps([case["threads"], sorted(keys)])


def describe_mem(case):
    out = ["threads:%d" % len(case["threads"])]
    for th in case["threads"]:
        for c in th:
            out.append("call:" + (c[0] if c[0] != "write" else "write/%s/%s" % (c[2], verdict(c))))
    return out


# ---------------------------------------------------------------- generators (memlogger)
def gen_program(rng, nthreads, maxcalls, ids):
    threads = []
    for t in range(nthreads):
        th = []
        for _ in range(rng.randrange(1, maxcalls + 1)):
            r = rng.random()
            if r < 0.52:
                ser = rng.choice(["none", "tb", "tb", "tb", "t0", "t0", "t1"])
                shape = "ok"
                if ser in ("t0", "t1") and rng.random() < 0.3:
                    shape = "extra"
                if ser == "none" and rng.random() < 0.3:
                    shape = "badjson"
                ids[0] += 1
                th.append(["write", ids[0], ser, shape, rng.randrange(0, 5)])
            elif r < 0.64:
                th.append(["validate"])
            elif r < 0.76:
                th.append(["serialize"])
            elif r < 0.90:
                th.append(["flush", rng.randrange(0, 5)])
            else:
                th.append(["reset"])
        threads.append(th)
    return threads


def random_segments(rng, nthreads, total):
    segs = []
    n = 0
    while n < total:
        k = rng.choice([1, 1, 2, 3, 5, 8, 13, 21, 40])
        segs.append([rng.randrange(nthreads), k])
        n += k
    return segs


def gen_mem(rng, tier):
    n = 220 if tier == "quick" else 5000
    out = []
    for _ in range(n):
        nt = rng.choice([2, 2, 3])
        threads = gen_program(rng, nt, 4, [0])
        out.append({"threads": threads, "sched": random_segments(rng, nt, 150 * nt)})
    return out


W = lambda i, ser, shape="ok", reason=2: ["write", i, ser, shape, reason]
CORPUS_PREEMPT = [
    # two writes with different serializers: the preemption between messages.append and serializers.append
    {"threads": [[W(1, "none")], [W(2, "tb")]]},
    {"threads": [[W(1, "t0"), W(2, "tb", reason=3)], [W(3, "t1", "extra"), W(4, "none", "badjson")]]},
    # reset racing with writes
    {"threads": [[W(1, "tb"), ["reset"]], [W(2, "t0"), W(3, "tb", reason=3)]]},
    {"threads": [[["reset"], W(1, "t1")], [W(2, "tb")], [W(3, "t0", "extra")]]},
    # validate racing with flush over two stored tracebacks (validate serializes stored tracebacks in place)
    {"threads": [[W(1, "tb"), W(2, "tb", reason=3), ["validate"]], [["flush", 0]]]},
    {"threads": [[W(1, "t0", "extra"), ["validate"]], [W(2, "tb"), ["validate"], ["flush", 1]]]},
    {"threads": [[W(1, "tb"), W(2, "tb", reason=3), W(3, "tb", reason=1), ["validate"]], [["flush", 0], ["flush", 0]]]},
    {"threads": [[W(1, "tb", reason=3), W(2, "tb")], [["validate"]], [["flush", 0]]]},
    # serialize racing with writes
    {"threads": [[W(1, "t0"), ["serialize"]], [W(2, "t1"), W(3, "tb")]]},
    {"threads": [[["serialize"], ["serialize"]], [W(1, "tb"), ["reset"], W(2, "t0")]]},
    # flush racing with traceback writes
    {"threads": [[W(1, "tb"), ["flush", 1]], [W(2, "tb", reason=1), ["flush", 2]]]},
]


def gen_mem_preempt(rng, tier):
    n = 4 if tier == "quick" else 60
    out = []
    for _ in range(n):
        nt = 2 if tier == "quick" else rng.choice([2, 2, 3])
        out.append({"threads": gen_program(rng, nt, 2, [0])})
    return out


# ================================================================ FileDestination
def file_line(msg):
    return json.dumps(msg, separators=(",", ":"), ensure_ascii=False).encode("utf-8")


def run_file(threads, schedule):
    from lib.linesched import LineScheduler, Deadlock
    from eliot import FileDestination
    s = LineScheduler(files=OUTPUT_FILES)

    class Rec(object):
        def __init__(self):
            self.chunks, self.on = [], False

        def write(self, b):
            if self.on:
                self.chunks.append(bytes(b))
                s.log("write")
            return len(b)

        def flush(self):
            if self.on:
                s.log("flush")
    rec = Rec()
    dest = FileDestination(file=rec)
    rec.on = True
    spans = [[] for _ in threads]

    def make(t):
        def body():
            for m in threads[t]:
                start = len(s.trace)
                dest(dict(m))
                spans[t].append([start, len(s.trace)])
            return len(threads[t])
        return body
    try:
        trace = s.run([make(t) for t in range(len(threads))], schedule)
    except Deadlock as e:
        return {"hang": str(e)[:300]}
    for r in s.results:
        if r is None or r[0] != "ok":
            return {"hang": "thread died: %r" % (r,)}
    content = b"".join(rec.chunks)
    parts = content.split(b"\n")
    lines = []
    for p in parts[:-1]:
        try:
            lines.append(json.loads(p.decode("utf-8")))
        except Exception:
            lines.append({"undecodable": p.decode("latin-1")})
    events = [[kind, t] for kind, t, _ in s.events]
    overlap = 0
    allspans = [(sp, t) for t in range(len(threads)) for sp in spans[t]]
    for (a, ta) in allspans:
        for (b, tb_) in allspans:
            if ta < tb_ and a[0] < b[1] and b[0] < a[1]:
                overlap += 1
    return {"lines": lines, "fragment": parts[-1].decode("latin-1"), "events": events, "overlap": overlap,
            "steps": len(trace), "per_thread_steps": [trace.count(t) for t in range(len(threads))]}


def impl_file(case):
    return {"runs": [run_file(case["threads"], _flat(case["sched"]))], "n_runs": 1}


def impl_file_preempt(case):
    threads = case["threads"]
    n = len(threads)
    dry = run_file(threads, _flat([[t, 5000] for t in range(n)]))
    if "hang" in dry:
        return {"runs": [dry], "n_runs": 1}
    runs = [run_file(threads, []), dry]
    hung = 0
    for segs in preempt_schedules(n, dry["per_thread_steps"]):
        runs.append(run_file(threads, _flat(segs)))
        if "hang" in runs[-1]:
            hung += 1
            if hung >= 4:
                break
    return {"runs": runs, "n_runs": len(runs)}


def model_sched_file(threads, events):
    """the model schedule (Enter, Write, Flush, Return per call) of a run whose calls each did write;flush -- else None"""
    state = [0] * len(threads)      # 0: between calls, 1: written
    done = [0] * len(threads)
    sched = []
    for kind, t in events:
        if t is None or t >= len(threads):
            return None
        if kind == "write" and state[t] == 0 and done[t] < len(threads[t]):
            sched += [t, t]
            state[t] = 1
        elif kind == "flush" and state[t] == 1:
            sched += [t, t]
            state[t] = 0
            done[t] += 1
        else:
            return None
    if any(state) or done != [len(th) for th in threads]:
        return None
    return sched


def post_file(cases, obs_list):
    from lib import coqbridge
    exprs, where, cache = [], [], {}
    for ci, (case, obs) in enumerate(zip(cases, obs_list)):
        progs = to_coq([[[NN(b) for b in file_line(m)] for m in th] for th in case["threads"]])
        for ri, run in enumerate(obs["runs"]):
            if "hang" in run:
                continue
            sched = model_sched_file(case["threads"], run["events"])
            if sched is None:
                continue
            e = ("let cfg := file_run %s %s in (complete_lines (disk_of (shared cfg)), fragment (disk_of (shared cfg)), finishedb cfg)"
                 % (progs, to_coq([Nat(t) for t in sched])))
            if e not in cache:
                cache[e] = len(exprs)
                exprs.append(e)
            where.append((ci, ri, cache[e]))
    vals = coqbridge.eval_in_coq(["Base.Interleave", "Model.Crash", "Model.MemLogger"], exprs, shard=60, jobs=12)
    out = [{"runs": [None] * len(o["runs"])} for o in obs_list]
    for ci, ri, k in where:
        (lines, frag), fin = vals[k]
        out[ci]["runs"][ri] = {"lines": [json.loads(bytes(l).decode("utf-8")) for l in lines],
                               "fragment": bytes(frag).decode("latin-1"), "finished": fin}
    return out


def project_file(case, obs):
    out = []
    for r in obs["runs"]:
        if "hang" in r or model_sched_file(case["threads"], r["events"]) is None:
            out.append(None)
        else:
            out.append({"lines": r["lines"], "fragment": r["fragment"], "finished": True})
    return {"runs": out}


def check_file_lines(written, lines, fragment):
    if fragment != "":
        return "file does not end at a line boundary: trailing %r" % fragment[:80]
    want = sorted(json.dumps(m, sort_keys=True) for m in written)
    got = []
    for l in lines:
        if "undecodable" in l and len(l) == 1:
            return "a line is not one JSON message (torn or merged): %r" % l["undecodable"][:120]
        got.append(json.dumps(l, sort_keys=True))
    for g in got:
        if g not in want:
            return "a line is none of the written messages: %r" % g[:120]
    if sorted(got) != want:
        missing = [w for w in want if w not in got]
        return "lines are not the written messages (%d lines for %d messages; missing %r)" % (len(got), len(want), missing[:2])
    return None


def oracle_file(case, obs):
    written = [m for th in case["threads"] for m in th]
    for k, r in enumerate(obs["runs"]):
        if "hang" in r:
            return "schedule %d: run did not finish: %s" % (k, r["hang"])
        bad = check_file_lines(written, r["lines"], r["fragment"])
        if bad:
            return "schedule %d: %s" % (k, bad)
    return None


def nontrivial_file(case, obs):
    if not isinstance(obs, dict) or "runs" not in obs:
        return None
    keys = {json.dumps(r["events"]) for r in obs["runs"] if "hang" not in r and r["overlap"]}
    return json.dumps([case["threads"], sorted(keys)]) if keys else None


def gen_file_program(rng, nthreads, maxmsgs):
    threads = []
    i = 0
    for t in range(nthreads):
        th = []
        for _ in range(rng.randrange(1, maxmsgs + 1)):
            i += 1
            m = {"i": i, "t": t}
            r = rng.random()
            if r < 0.3:
                m["text"] = rng.choice(["line1\nline2", "\n", "caf\u00e9 \u2028", "a\\nb", "{\"x\":1}\n{\"y\":2}"])
            elif r < 0.5:
                m["pad"] = "x" * rng.randrange(0, 40)
            th.append(m)
        threads.append(th)
    return threads


def gen_file(rng, tier):
    n = 150 if tier == "quick" else 3000
    out = []
    for _ in range(n):
        nt = rng.choice([2, 3, 4])
        out.append({"threads": gen_file_program(rng, nt, 3), "sched": random_segments(rng, nt, 40 * nt)})
    return out


CORPUS_FILE_PREEMPT = [
    {"threads": [[{"i": 1}], [{"i": 2}]]},
    {"threads": [[{"i": 1, "text": "a\nb"}, {"i": 2}], [{"i": 3}], [{"i": 4, "text": "\n"}]]},
]


def gen_file_preempt(rng, tier):
    n = 3 if tier == "quick" else 40
    return [{"threads": gen_file_program(rng, rng.choice([2, 3]), 2)} for _ in range(n)]


# ---------------------------------------------------------------- supplementary stress run (thorough only; not a proof)
def gen_stress(rng, tier):
    if tier == "quick":
        return []
    return [{"threads": 16, "per": 400, "pad": rng.randrange(10, 200)} for _ in range(3)]


def impl_stress(case):
    import os
    import sys
    import shutil
    import tempfile
    import threading
    from eliot import FileDestination
    root = os.path.join(os.path.dirname(os.path.dirname(os.path.abspath(__file__))), ".work")
    os.makedirs(root, exist_ok=True)
    d = tempfile.mkdtemp(prefix="c16stress", dir=root)
    old = sys.getswitchinterval()
    try:
        sys.setswitchinterval(1e-6)
        path = os.path.join(d, "log")
        f = open(path, "wb")
        dest = FileDestination(file=f)
        go = threading.Event()

        def body(t):
            go.wait()
            for k in range(case["per"]):
                dest({"t": t, "k": k, "pad": "p" * ((t * 7 + k) % case["pad"]), "text": "a\nb"})
        ths = [threading.Thread(target=body, args=(t,)) for t in range(case["threads"])]
        for th in ths:
            th.start()
        go.set()
        for th in ths:
            th.join(120)
        f.close()
        content = open(path, "rb").read()
    finally:
        sys.setswitchinterval(old)
        shutil.rmtree(d, ignore_errors=True)
    parts = content.split(b"\n")
    bad, seen = [], {}
    for p in parts[:-1]:
        try:
            m = json.loads(p.decode("utf-8"))
            seen[(m["t"], m["k"])] = seen.get((m["t"], m["k"]), 0) + 1
        except Exception:
            bad.append(p[:80].decode("latin-1"))
    want = case["threads"] * case["per"]
    return {"lines": len(parts) - 1, "fragment": parts[-1][:80].decode("latin-1"), "undecodable": bad[:3], "n_undecodable": len(bad),
            "distinct": len(seen), "dups": sum(1 for v in seen.values() if v != 1), "want": want}


def oracle_stress(case, obs):
    if obs["fragment"] or obs["n_undecodable"]:
        return "stress run: %d undecodable lines, trailing %r, e.g. %r" % (obs["n_undecodable"], obs["fragment"], obs["undecodable"])
    if obs["distinct"] != obs["want"] or obs["dups"] or obs["lines"] != obs["want"]:
        return "stress run: %d lines, %d distinct messages, %d duplicated, expected %d" % (obs["lines"], obs["distinct"], obs["dups"], obs["want"])
    return None


# ----------------------------------------------------------------
def _fam(name, gen, impl, oracle, nontrivial, post, project, describe, corpus=(), shard=25, case_timeout=60):
    f = Family(name, gen, impl, None, None, oracle, nontrivial, project=project, corpus=corpus, shard=shard,
               case_timeout=case_timeout, describe=describe)

    def post_and_count(cases, obs_list):
        runs = sum(len(o["runs"]) for o in obs_list)
        contended = sum(1 for o in obs_list for r in o["runs"] if "hang" not in r and (r.get("contended") or r.get("overlap")))
        print("C16 %s: %d programs, %d scheduled runs (%d with contention/overlap), each replayed in the model" % (name, len(cases), runs, contended))
        return post(cases, obs_list)
    f.post_model = post_and_count
    return f


def describe_file(case):
    return ["threads:%d" % len(case["threads"]), "messages:%d" % sum(len(th) for th in case["threads"])]


FAMILIES = [
    _fam("memlogger", gen_mem, impl_mem, oracle_mem, nontrivial_mem, post_mem, project_mem, describe_mem),
    _fam("memlogger_preempt", gen_mem_preempt, impl_mem_preempt, oracle_mem, nontrivial_mem, post_mem, project_mem, describe_mem,
         corpus=CORPUS_PREEMPT, shard=1, case_timeout=120),
    _fam("file", gen_file, impl_file, oracle_file, nontrivial_file, post_file, project_file, describe_file),
    _fam("file_preempt", gen_file_preempt, impl_file_preempt, oracle_file, nontrivial_file, post_file, project_file, describe_file,
         corpus=CORPUS_FILE_PREEMPT, shard=1, case_timeout=120),
    Family("file_stress", gen_stress, impl_stress, None, None, oracle_stress,
           lambda case, obs: json.dumps(case) if isinstance(obs, dict) and obs.get("lines") else None,
           shard=1, case_timeout=300, describe=lambda c: "supplementary-stress-not-a-proof"),
]


# ---- the same typed message kind written by two threads through the real Logger (serialization happens outside any lock) ----
from props import C13 as _c13

FAMILIES.append(Family("shared_type", _c13.gen_shared, _c13.impl_shared, None, None, _c13.oracle_shared,
                       lambda case, obs: json.dumps(case), shard=30, case_timeout=30))


# ---- the very first tracebacks of a process, logged by several threads at once (fresh interpreter per case) ----
_FIRST_TB = r'''
import sys, threading, json
from eliot import MemoryLogger, write_traceback
N = int(sys.argv[1])
logger = MemoryLogger()
barrier = threading.Barrier(N)
errors = []
def work(i):
    barrier.wait()
    try:
        raise ValueError("boom%d" % i)
    except ValueError:
        try:
            write_traceback(logger)
        except BaseException as e:
            errors.append("%s: %s" % (type(e).__name__, e))
ts = [threading.Thread(target=work, args=(i,)) for i in range(N)]
[t.start() for t in ts]
[t.join(30) for t in ts]
reasons = sorted(str(m.get("reason")) for m in logger.messages)
print(json.dumps({"errors": errors, "n_messages": len(logger.messages), "n_tb": len(logger.tracebackMessages),
                  "n_ser": len(logger.serializers), "reasons": reasons}))
'''


def gen_first_tb(rng, tier):
    return [{"threads": n} for n in ([2, 8, 16] if tier == "quick" else [2, 2, 3, 4, 8, 8, 16, 16, 32, 32])]


def impl_first_tb(case):
    import subprocess, sys
    p = subprocess.run([sys.executable, "-c", _FIRST_TB, str(case["threads"])], stdout=subprocess.PIPE, stderr=subprocess.PIPE,
                       universal_newlines=True, timeout=60, env=dict(os.environ))
    try:
        return json.loads(p.stdout.strip().splitlines()[-1])
    except Exception:
        return {"errors": ["child failed: " + (p.stderr or p.stdout)[-300:]], "n_messages": -1, "n_tb": -1, "n_ser": -1, "reasons": []}


def oracle_first_tb(case, obs):
    n = case["threads"]
    if obs["errors"]:
        return "write_traceback raised in %d of %d threads logging the process's first tracebacks: %s" % (len(obs["errors"]), n, obs["errors"][0])
    if not (obs["n_messages"] == obs["n_tb"] == obs["n_ser"] == n):
        return "%d threads each logged one traceback; recorded messages=%d tracebackMessages=%d serializers=%d" % (
            n, obs["n_messages"], obs["n_tb"], obs["n_ser"])
    if obs["reasons"] != sorted("boom%d" % i for i in range(n)):
        return "recorded tracebacks %r" % obs["reasons"]
    return None


FAMILIES.append(Family("first_tracebacks", gen_first_tb, impl_first_tb, None, None, oracle_first_tb,
                       lambda case, obs: json.dumps(case), shard=1, case_timeout=90))


# ---- two threads whose typed messages fail to serialize at the same time on the one default Logger: both get their reports
FAMILIES.append(Family("failing_threads", _c13.gen_threads, _c13.impl_threads, None, None, _c13.oracle_threads,
                       lambda case, obs: json.dumps(case), shard=30, case_timeout=30))
