"""C17 — test helpers reconstruct the same action tree as the parser."""
import json

from lib import progs, oracles, forests
from lib.framework import Family
from lib.coqbridge import to_coq, Nat, Pos, Some, C

ID = "C17"
PROPS_FILE = "Props/C17.v"
TRUSTED = []
ASSUMPTIONS = ["logs are captured by one MemoryLogger from generated programs; every spawned thread is joined"]
RULE = ("programs generated from VERIF_SEED with few action types (so that equal types recur among siblings and descendants), remote "
        "sub-tasks, failed actions, several tasks; captured by a real MemoryLogger; helpers evaluated on the whole log and on a "
        "truncated log (unfinished actions); non-trivial when some type occurs at two different depths or twice among siblings")
LEVEL_TEXT = ("Coq theorems about the helper model (Model/Testing.v) + correspondence of LoggedAction.of_type / descendants / type_tree / "
              "succeeded / LoggedMessage.of_type with the model on real captured logs + the statement: one entry per finished action of "
              "the type in emission order, each equal to the tree the real parser builds from the same messages, pre-order traversals, "
              "assert helpers succeed exactly when the first entry matches.")
LEVEL_NOTE = ("Trusted: Coq kernel; hand-written model tied by correspondence. Error branch stated: of_type raises ValueError when an action "
              "of the type (or a descendant action) lacks its start or end message.")

TYPE_IDS = dict(progs.TYPE_REV)


def type_id(name):
    if name is None:
        return None
    if name in TYPE_IDS:
        return TYPE_IDS[name]
    if isinstance(name, str) and name.startswith("type") and name[4:].isdigit():
        return int(name[4:])
    return 99


def gen(rng, tier):
    n = 80 if tier == "quick" else 1500
    out = []
    for i in range(n):
        kw = dict(fault=0.0, registry_rate=0.0, p_fault_ser=0.0, p_typed=0.15, p_tb=0.05, p_handoff=0.12, p_task=0.1,
                  p_raise=0.2, depth=4, p_reseed=0.25)
        if tier == "thorough" and i % 3 == 0:
            kw.update(depth=6, width=5)
        case = progs.gen_case(rng, n_dests=1, **kw)
        case["pre"] = []
        _squash_types(case["prog"], rng)
        case["cut"] = rng.random()
        out.append(case)
    return out


def _squash_types(stmts, rng):
    """few distinct types, so that equal-typed actions occur at several depths"""
    for st in stmts:
        if st[0] == "act":
            if st[4] != 5:          # 5 = "" (start_action's default action type) stays what it is
                st[4] = 10 + (st[4] % 2)
            _squash_types(st[8], rng)
        elif st[0] == "msg":
            st[1] = 12 + (st[1] % 2)
        elif st[0] == "actlog":
            st[2] = 12 + (st[2] % 2)
        elif st[0] in ("try", "handler"):
            _squash_types(st[1], rng)
        elif st[0] == "handoff":
            _squash_types(st[5], rng)
        elif st[0] == "reenter":
            _squash_types(st[2], rng)


def lmsg_json(m, i):
    st = m.get("action_status")
    return {"u": m["task_uuid"], "l": list(m["task_level"]), "at": type_id(m.get("action_type")),
            "mt": type_id(m.get("message_type")),
            "s": st if st in ("started", "succeeded", "failed") else (None if st is None else "other"), "id": i}


def impl(case):
    import unittest
    from eliot import MemoryLogger
    from eliot.testing import swap_logger, LoggedAction, LoggedMessage, assertHasAction, assertHasMessage
    from eliot.parse import Parser, WrittenAction
    if "synthetic" in case:
        # a log as several threads/processes sharing one MemoryLogger produce it: sub-tasks handed off
        # elsewhere may log after the action that handed them off has ended
        full = [forests.to_dict(m) for m in case["synthetic"]]
        for d in full:
            d.pop("id", None)

        class _It(object):
            notes = []
        it = _It()
    else:
        logger = MemoryLogger()
        prev = swap_logger(logger)
        try:
            it = progs.Interp(dict(case, swapped_logger=True))
            try:
                it.block(case["prog"], 0)
            except BaseException:
                pass
        finally:
            swap_logger(prev)
        full = list(logger.messages)
    cut = int(len(full) * case["cut"])
    uu = {}
    for m in full:
        uu.setdefault(m["task_uuid"], len(uu))
    res = {"msgs": [dict(lmsg_json(m, i), u=uu[m["task_uuid"]]) for i, m in enumerate(full)], "cut": cut, "views": [],
           "notes": it.notes}
    tc = unittest.TestCase()

    for messages in (full, full[:cut]):
        ident = {id(m): i for i, m in enumerate(messages)}

        def dump(x):
            if isinstance(x, LoggedAction):
                return ["A", ident[id(x.start_message)], ident[id(x.end_message)], [dump(c) for c in x.children]]
            return ["M", ident[id(x.message)]]

        def head(x):
            return ident[id(x.start_message)] if isinstance(x, LoggedAction) else ident[id(x.message)]

        def ttree(d):
            (k, v), = d.items()
            return ["A", type_id(k), [ttree(c) if isinstance(c, dict) else ["M", type_id(c)] for c in v]]

        view = {"of_type": {}, "msg_of_type": {}, "parser": {}, "asserts": []}
        for t in (10, 11, 4):
            name = progs.type_name(t)
            try:
                acts = LoggedAction.of_type(messages, name)
                view["of_type"][str(t)] = {"trees": [dump(a) for a in acts], "succeeded": [a.succeeded for a in acts],
                                           "desc": [[head(d) for d in a.descendants()] for a in acts],
                                           "ttree": [ttree(a.type_tree()) for a in acts]}
            except ValueError:
                view["of_type"][str(t)] = "ValueError"
        for t in (12, 13, 2):
            view["msg_of_type"][str(t)] = [ident[id(x.message)] for x in LoggedMessage.of_type(messages, progs.type_name(t))]
        # what the real parser builds from the same messages
        try:
            tasks = list(Parser.parse_stream([dict(m, id=i) for i, m in enumerate(messages)]))
            found = []

            def walk(n):
                if isinstance(n, WrittenAction):
                    found.append(n)
                    for c in n.children:
                        walk(c)
            for tk in tasks:
                walk(tk.root())

            def pdump(n):
                if isinstance(n, WrittenAction):
                    return ["A", None if n.start_message is None else n.start_message.contents["id"],
                            None if n.end_message is None else n.end_message.contents["id"], [pdump(c) for c in n.children]]
                return ["M", n.contents["id"]]
            for t in (10, 11, 4):
                name = progs.type_name(t)
                sel = [n for n in found if n.start_message is not None and n.action_type == name]
                sel.sort(key=lambda n: n.start_message.contents["id"])
                view["parser"][str(t)] = [pdump(n) for n in sel]
        except Exception as e:
            view["parser"] = "error:" + type(e).__name__
        # assert helpers against the first entry
        if messages is full:
            logger2 = MemoryLogger()
            logger2.messages = list(messages)
            for t in (10, 11):
                name = progs.type_name(t)
                first = None
                try:
                    acts = LoggedAction.of_type(messages, name)
                    first = acts[0] if acts else None
                except ValueError:
                    continue
                for want_succ in (True, False):
                    for mode in ("empty", "subset", "wrong", "none_missing"):
                        sf = {}
                        if mode == "none_missing":
                            sf = {"f_absent": None}      # an expected field that is absent, expected value None
                        elif first is not None and mode != "empty":
                            items = [(k, v) for k, v in first.start_message.items() if k.startswith("f")][:2]
                            sf = dict(items)
                            if mode == "wrong":
                                sf["f19"] = -12345
                        try:
                            assertHasAction(tc, logger2, name, want_succ, sf, {})
                            ok = True
                        except AssertionError:
                            ok = False
                        expect = (first is not None and first.succeeded == want_succ and
                                  all(k in first.start_message and first.start_message[k] == v for k, v in sf.items()))
                        view["asserts"].append(["action", t, want_succ, mode, ok, bool(expect)])
            for t in (12, 13):
                name = progs.type_name(t)
                ms = LoggedMessage.of_type(messages, name)
                for mode in ("empty", "wrong", "none_missing"):
                    f = {} if mode == "empty" else ({"f_nonexistent": 1} if mode == "wrong" else {"f_absent": None})
                    try:
                        assertHasMessage(tc, logger2, name, f)
                        ok = True
                    except AssertionError:
                        ok = False
                    view["asserts"].append(["message", t, None, mode, ok, bool(ms) and mode == "empty"])
        res["views"].append(view)
    return res


def c_lmsg(m):
    st = {"started": "PStarted", "succeeded": "PSucceeded", "failed": "PFailed", "other": "POther"}
    return C("mkLmsg", Nat(m["u"]), [Pos(k) for k in m["l"]],
             None if m["at"] is None else Some(Pos(m["at"])), None if m["mt"] is None else Some(Pos(m["mt"])),
             None if m["s"] is None else Some(C(st[m["s"]])), Nat(m["id"]))


# the model needs the captured messages: they come from the implementation run, so the model
# expression is built from the observation (second stage)
def model_expr(case):
    return None


def run_model_on(obs_list):
    """evaluate the helper model on the messages each implementation run captured"""
    from lib import coqbridge
    exprs = []
    for obs in obs_list:
        msgs = [c_lmsg(m) for m in obs["msgs"]]
        cut = obs["cut"]
        exprs.append(
            "let all := %s in let views := [all; firstn %d all] in "
            "map (fun ms => (map (fun t => match of_type ms t with "
            "  | TOk l => Some (l, map succeeded l, map descendants l, map type_tree l) | _ => None end) [10; 11; 4]%%positive, "
            " map (fun t => map lm_id (messages_of_type ms t)) [12; 13; 2]%%positive)) views"
            % (to_coq(msgs), cut))
    return coqbridge.eval_in_coq(["Base.Level", "Model.Parser", "Model.Testing"], exprs, shard=10, jobs=12)


def dump_logged(x):
    if x[0] == "LMessage":
        return ["M", x[1][6]]
    return ["A", x[1][6], x[2][6], [dump_logged(c) for c in x[3]]]


def head_logged(x):
    return x[1][6]


def dump_tt(x):
    def o(v):
        return None if v is None else v[1]
    if x[0] == "TTMsg":
        return ["M", o(x[1])]
    return ["A", o(x[1]), [dump_tt(c) for c in x[2]]]


def model_view(parsed):
    views = []
    for acts, msgs in parsed:
        v = {"of_type": {}, "msg_of_type": {}}
        for t, r in zip((10, 11, 4), acts):
            if r is None:
                v["of_type"][str(t)] = "ValueError"
            else:
                (((trees, succ), desc), tts) = r[1]
                v["of_type"][str(t)] = {"trees": [dump_logged(a) for a in trees], "succeeded": list(succ),
                                        "desc": [[head_logged(d) for d in ds] for ds in desc],
                                        "ttree": [dump_tt(a) for a in tts]}
        for t, r in zip((12, 13, 2), msgs):
            v["msg_of_type"][str(t)] = list(r)
        views.append(v)
    return views


def oracle(case, obs):
    bad = oracles.note_failures(obs, ("logging_raised", "foreign_exception"))
    if bad:
        return bad
    for vi, view in enumerate(obs["views"]):
        n = len(obs["msgs"]) if vi == 0 else obs["cut"]
        msgs = obs["msgs"][:n]
        if isinstance(view["parser"], str):
            return "real parser failed on the captured log: %s" % view["parser"]
        for t, r in view["of_type"].items():
            ptrees = view["parser"][t]
            unfinished = any(_unfinished(p) for p in ptrees)
            if r == "ValueError":
                if not unfinished:
                    return "of_type(type%s) raised ValueError although every action of that type (and its descendants) is finished" % t
                continue
            if unfinished:
                return "of_type(type%s) returned although an action of that type or a descendant is unfinished" % t
            # same tree as the parser's: same nodes with the same children; the helpers list children in
            # emission (log) order, the parser by position - these differ only when a handed-off sub-task
            # logged after later siblings, so the comparison is up to child order, and emission order is
            # checked separately
            if [_norm(x) for x in r["trees"]] != [_norm(x) for x in ptrees]:
                return "of_type(type%s) trees differ from the parser's trees for the same messages" % t
            for tree in r["trees"]:
                bad = _emission_order(tree)
                if bad:
                    return "of_type(type%s): %s" % (t, bad)
            for tree, succ, desc in zip(r["trees"], r["succeeded"], r["desc"]):
                if succ != (msgs[tree[2]]["s"] == "succeeded"):
                    return "succeeded flag wrong for action starting at message %d" % tree[1]
                if desc != _preorder(tree):
                    return "descendants() is not the pre-order of the action's tree"
            for tree, tt in zip(r["trees"], r["ttree"]):
                if tt != _type_tree(tree, msgs):
                    return "type_tree() does not match the action's tree"
        for t, ids in view["msg_of_type"].items():
            want = [m["id"] for m in msgs if m["mt"] == int(t)]
            if ids != want:
                return "LoggedMessage.of_type(type%s) returned %r, expected %r" % (t, ids, want)
        for kind, t, ws, mode, ok, expect in view["asserts"]:
            if ok != expect:
                return "assertHas%s(type%s, succeeded=%s, fields=%s) %s but the first entry %s" % (
                    kind.capitalize(), t, ws, mode, "passed" if ok else "failed", "matches" if expect else "does not match")
    return None


def _norm(tree):
    if tree[0] == "M":
        return tree
    return ["A", tree[1], tree[2], sorted((_norm(c) for c in tree[3]), key=lambda c: c[1] if c[1] is not None else -1)]


def _emission_order(tree):
    if tree[0] == "M":
        return None
    heads = [c[1] for c in tree[3]]
    if heads != sorted(heads):
        return "children are not in emission order: %r" % heads
    for c in tree[3]:
        bad = _emission_order(c)
        if bad:
            return bad
    return None


def _unfinished(p):
    if p[0] == "M":
        return False
    return p[1] is None or p[2] is None or any(_unfinished(c) for c in p[3])


def _preorder(tree):
    out = []
    for c in tree[3]:
        out.append(c[1])
        if c[0] == "A":
            out += _preorder(c)
    return out


def _type_tree(tree, msgs):
    return ["A", msgs[tree[1]]["at"], [(_type_tree(c, msgs) if c[0] == "A" else ["M", msgs[c[1]]["mt"]]) for c in tree[3]]]


def nontrivial(case, obs):
    if not isinstance(obs, dict) or "msgs" not in obs:
        return None
    depths = {}
    for m in obs["msgs"]:
        if m["s"] == "started":
            depths.setdefault(m["at"], set()).add(len(m["l"]))
    return json.dumps(case["prog"], sort_keys=True) if any(len(d) > 1 for d in depths.values()) else None


def gen_synthetic(rng, tier):
    n = 60 if tier == "quick" else 1200
    out = []
    for i in range(n):
        forest = forests.gen_forest(rng, rng.randrange(1, 4), 4, 3)
        msgs = forests.linearize(forest)
        if len(msgs) > 80:
            continue
        for m in msgs:      # few distinct types, as in the program family
            if m["s"] is not None and m["t"] not in (4,):
                m["t"] = 10 + (m["t"] % 2)
            elif m["s"] is None:
                m["t"] = 12 + (m["t"] % 2)
        # move the block of some remote sub-tasks (type 4) behind the end of the action that handed them off
        order = list(range(len(msgs)))
        for j, m in enumerate(msgs):
            if m["t"] == 4 and m["s"] == "started" and rng.random() < 0.7:
                prefix = m["l"][:-1]
                block = [k for k in order if msgs[k]["u"] == m["u"] and msgs[k]["l"][:len(prefix)] == prefix]
                parent = prefix[:-1]
                ends = [k for k in order if msgs[k]["u"] == m["u"] and msgs[k]["l"][:-1] == parent
                        and msgs[k]["s"] in ("succeeded", "failed")]
                if not ends:
                    continue
                rest = [k for k in order if k not in block]
                at = rest.index(ends[0]) + 1 + rng.randrange(0, 3)
                order = rest[:at] + block + rest[at:]
        out.append({"synthetic": [msgs[k] for k in order], "cut": rng.random(), "prog": []})
    return out


class TwoStageFamily(Family):
    """the model consumes what the implementation captured"""
    two_stage = True


FAMILIES = [
    TwoStageFamily("helpers", gen, impl, model_expr, None, oracle, nontrivial,
                   imports=["Base.Level", "Model.Parser", "Model.Testing"], describe=progs.describe, shrink=progs.shrink,
                   shard=30, case_timeout=30),
]
FAMILIES[0].post_model = lambda cases, obs_list: [{"views": model_view(p)} for p in run_model_on(obs_list)]
FAMILIES[0].project = lambda case, obs: {"views": [{"of_type": v["of_type"], "msg_of_type": v["msg_of_type"]} for v in obs["views"]]}

FAMILIES.append(TwoStageFamily("synthetic", gen_synthetic, impl, model_expr, None, oracle,
                               lambda case, obs: json.dumps(case["synthetic"]) if any(m["t"] == 4 for m in case["synthetic"]) else None,
                               imports=["Base.Level", "Model.Parser", "Model.Testing"], shard=30, case_timeout=30,
                               describe=lambda c: ["synthetic", "remote" if any(m["t"] == 4 for m in c["synthetic"]) else "no_remote"]))
FAMILIES[1].post_model = FAMILIES[0].post_model
FAMILIES[1].project = FAMILIES[0].project
