"""C18 — log_call is transparent: same result, same exceptions, faithful argument log."""
import json

from lib.framework import Family
from lib.coqbridge import Pos, Z, Str, C, Raw, Some, to_coq, flat

ID = "C18"
PROPS_FILE = "Props/C18.v"
TRUSTED = [
    "CPython 3.12 argument binding is the reference semantics; the model's `bind` is compared with it on every generated call (the undecorated function records what it was bound to)",
    "inspect.Signature.bind/apply_defaults (stdlib): modelled as `sigbind` (= bind except its one deviation), tied by the correspondence; functools.wraps metadata preservation (__name__, __doc__, inspect.signature) is checked on every generated function, no theorem claimed",
    "str(e), type(e).__module__/__name__ of the generated exception objects",
]
ASSUMPTIONS = [
    "no keyword argument names a positional-only parameter that has a default, is not filled positionally, while **kwargs exists and the call is otherwise valid (known finding F3f: inspect.Signature.bind rejects such a call)",
    "the function body logs nothing itself; the exception-extractor registry is empty (C03 covers it)",
]
RULE = ("calls: signatures with all five parameter kinds, defaults and names from a pool containing eliot's own keyword/field names; "
        "valid and invalid argument lists; all decorator options; functions, methods, classmethods, staticmethods; top level and nested; "
        "non-trivial = a valid call of a function with at least one parameter, distinct by (signature, call, options)")

# ---------------------------------------------------------------- names
NAMES = ["self", "action_status", "timestamp", "task_uuid", "action_type", "task_level", "result", "exception",
         "reason", "_call", "logger", "_serializers", "fields", "task_id", "x", "y", "cls", "args", "kwargs",
         "message_type", "z", "wrapped_function", "callargs", "ctx", "include_args"]
NUM = {n: i + 1 for i, n in enumerate(NAMES)}
RESERVED = ["action_status", "timestamp", "task_uuid", "action_type", "task_level"]
# the pool the generator draws parameter names from (weights)
POOL = (["logger", "action_type", "_serializers", "self", "fields", "task_id", "result", "exception", "reason", "x", "y"] * 4
        + ["task_uuid", "task_level", "timestamp", "action_status", "args", "kwargs", "message_type", "z",
           "wrapped_function", "callargs", "ctx", "include_args"] * 2)
CALL_RATE = 0.006      # how often one parameter is renamed `_call` (regression for the repaired F3e)
KINDS = {"posonly": "KPosOnly", "normal": "KNormal", "varargs": "KVarArgs", "kwonly": "KKwOnly", "varkw": "KVarKw"}
KIND_REV = {v: k for k, v in KINDS.items()}
EXC = [("builtins", "ValueError"), ("builtins", "KeyError"), ("builtins", "TypeError"), ("props.C18", "AppError"),
       ("builtins", "ZeroDivisionError")]
MODULE = "c18mod"
OBJ_ID, CLS_ID = 900, 901


class AppError(Exception):
    pass


# ---------------------------------------------------------------- generator
def gen_sig(rng, how):
    n_po = rng.choice([0, 0, 0, 1, 1, 2])
    n_nm = rng.choice([0, 1, 1, 2, 2, 3])
    va = rng.random() < 0.35
    n_ko = rng.choice([0, 0, 1, 1, 2])
    vk = rng.random() < 0.45
    first = {"method": "self", "classmethod": "cls"}.get(how)
    pool = [n for n in POOL if n != first and not (first and n in ("self", "cls"))]
    total = n_po + n_nm + n_ko + int(va) + int(vk)
    names = []
    while len(names) < total:
        n = rng.choice(pool)
        if n not in names:
            names.append(n)
    if names and rng.random() < CALL_RATE:
        names[rng.randrange(len(names))] = "_call"
    it = iter(names)
    sig = []
    npos = n_po + n_nm
    dstart = rng.choice([npos, npos, rng.randrange(0, npos + 1)])
    nextd = [100]

    def d():
        nextd[0] += 1
        return nextd[0]
    for i in range(npos):
        sig.append([next(it), "posonly" if i < n_po else "normal", d() if i >= dstart else None])
    if first:
        kind = "posonly" if n_po else "normal"
        sig.insert(0, [first, kind, None])
    if va:
        sig.append([next(it), "varargs", None])
    for i in range(n_ko):
        sig.append([next(it), "kwonly", d() if rng.random() < 0.5 else None])
    if vk:
        sig.append([next(it), "varkw", None])
    return sig


def gen_call(rng, sig, implicit_first):
    """positional ids and keyword pairs as the caller writes them (without the implicit self/cls)"""
    params = sig[1:] if implicit_first else sig
    posp = [p for p in params if p[1] in ("posonly", "normal")]
    n_po = len([p for p in posp if p[1] == "posonly"])
    nextv = [0]

    def v():
        nextv[0] += 1
        return nextv[0]
    k = rng.choice([len(posp), n_po, rng.randrange(0, len(posp) + 1)])
    k = max(k, min(n_po, len(posp))) if rng.random() < 0.8 else k
    by_kw_posonly = n_po > 0 and rng.random() < 0.09
    if by_kw_posonly:
        k = rng.randrange(0, n_po)                          # a positional-only parameter left to a keyword
    pos = [v() for _ in range(k)]
    has_va = any(p[1] == "varargs" for p in params)
    has_vk = any(p[1] == "varkw" for p in params)
    if has_va and k == len(posp) and rng.random() < 0.6:
        pos += [v() for _ in range(rng.choice([1, 2]))]
    kw = []
    for p in posp[k:]:
        if (p[1] == "normal" and (p[2] is None or rng.random() < 0.5)) or (p[1] == "posonly" and by_kw_posonly):
            kw.append([p[0], v()])
    for p in params:
        if p[1] == "kwonly" and (p[2] is None or rng.random() < 0.5):
            kw.append([p[0], v()])
    sig_names = [p[0] for p in sig]
    if has_vk and rng.random() < 0.6:
        for _ in range(rng.choice([1, 1, 2])):
            n = rng.choice(POOL)
            if n not in sig_names and n not in [a for a, _ in kw]:
                kw.append([n, v()])
    # perturbations: invalid or unusual argument lists
    r = rng.random()
    if r < 0.08 and kw:
        kw.pop(rng.randrange(len(kw)))                      # maybe a missing required argument
    elif r < 0.14 and pos:
        pos.pop()                                           # one positional too few
    elif r < 0.22:
        pos.append(v())                                     # one positional too many (or into *args)
    elif r < 0.30:
        n = rng.choice(POOL)
        if n not in [a for a, _ in kw]:
            kw.append([n, v()])                             # unexpected keyword (or into **kw, or a clash)
    elif r < 0.36 and posp and pos:
        p = posp[rng.randrange(min(len(pos), len(posp)))]
        if p[0] not in [a for a, _ in kw]:
            kw.append([p[0], v()])                          # positional and keyword for the same parameter
    elif r < 0.44:
        cand = [p for p in sig if p[1] == "posonly"]
        if cand:
            p = rng.choice(cand)
            if p[0] not in [a for a, _ in kw]:
                kw.append([p[0], v()])                      # keyword naming a positional-only parameter
    elif r < 0.47:
        cand = [p for p in sig if p[1] in ("varargs", "varkw")]
        if cand:
            p = rng.choice(cand)
            if p[0] not in [a for a, _ in kw]:
                kw.append([p[0], v()])                      # keyword naming *args / **kw themselves
    rng.shuffle(kw)
    return pos, kw


def gen_opts(rng, sig):
    o = {"action_type": None, "include_args": None, "include_result": True, "explicit": rng.random() < 0.3}
    r = rng.random()
    if r < 0.3:
        o["action_type"] = rng.choice(["app:call", "", "c18mod.f", "x"])
    if rng.random() < 0.35:
        o["include_result"] = False
    r = rng.random()
    names = [p[0] for p in sig]
    if r < 0.35:
        inc = [n for n in names if rng.random() < 0.5]
        rng.shuffle(inc)
        if inc and rng.random() < 0.15:
            inc.append(inc[0])                               # listed twice
        o["include_args"] = inc
    elif r < 0.41:
        inc = [n for n in names if rng.random() < 0.5]
        extra = rng.choice([n for n in POOL if n not in names] or ["nosuch"])
        inc.insert(rng.randrange(len(inc) + 1), extra)       # not a parameter: ValueError at decoration
        o["include_args"] = inc
    return o


def gen_body(rng, sig, pos):
    r = rng.random()
    if r < 0.25:
        return ["raise", rng.randrange(len(EXC)), 700 + rng.randrange(5)]
    if r < 0.45:
        cand = [p[0] for p in sig if p[1] in ("posonly", "normal", "kwonly")]
        if cand:
            return ["retparam", rng.choice(cand)]
    return ["ret", 500]


CORPUS = [
    # the witness of the known finding F3f, then those of the repaired F3/F3b/F3c/F3d/F3e
    {"sig": [["x", "posonly", 101], ["kwargs", "varkw", None]], "how": "function", "pos": [], "kw": [["x", 2]],
     "opts": {"action_type": None, "include_args": None, "include_result": True, "explicit": False},
     "body": ["ret", 500], "nested": None},
    {"sig": [["x", "posonly", None], ["kwargs", "varkw", None]], "how": "function", "pos": [1], "kw": [["x", 2]],
     "opts": {"action_type": None, "include_args": None, "include_result": True, "explicit": False},
     "body": ["ret", 500], "nested": None},
    {"sig": [["x", "posonly", None]], "how": "function", "pos": [], "kw": [["x", 1]],
     "opts": {"action_type": None, "include_args": None, "include_result": True, "explicit": False},
     "body": ["retparam", "x"], "nested": None},
    {"sig": [["self", "normal", None]], "how": "function", "pos": [3], "kw": [],
     "opts": {"action_type": None, "include_args": ["self"], "include_result": True, "explicit": False},
     "body": ["ret", 500], "nested": None},
    {"sig": [["_call", "normal", None]], "how": "function", "pos": [3], "kw": [],
     "opts": {"action_type": None, "include_args": None, "include_result": True, "explicit": False},
     "body": ["ret", 500], "nested": None},
    {"sig": [["logger", "normal", None], ["action_type", "normal", 101], ["_serializers", "kwonly", 102]],
     "how": "function", "pos": [1], "kw": [], "body": ["retparam", "logger"], "nested": None,
     "opts": {"action_type": None, "include_args": None, "include_result": True, "explicit": False}},
    {"sig": [["self", "normal", None], ["x", "normal", 101]], "how": "method", "pos": [], "kw": [],
     "opts": {"action_type": None, "include_args": None, "include_result": False, "explicit": True},
     "body": ["ret", 500], "nested": 1},
]


def gen_default_clash(rng, how):
    """a valid call in which a keyword names a positional-only parameter left to its default (goes to **kw)"""
    for _ in range(200):
        sig = gen_sig(rng, how)
        params = sig[1:] if how in ("method", "classmethod") else sig
        po = [i for i, p in enumerate(params) if p[1] == "posonly" and p[2] is not None]
        if po and any(p[1] == "varkw" for p in sig):
            break
    else:
        return None
    first = rng.choice(po)
    pos = list(range(1, first + 1))
    kw = [[params[first][0], 50]]
    n = 60
    for p in params[first + 1:]:
        if (p[1] == "kwonly" and (p[2] is None or rng.random() < 0.5)) or (p[1] == "normal" and rng.random() < 0.3):
            n += 1
            kw.append([p[0], n])
    rng.shuffle(kw)
    return sig, pos, kw


def gen_calls(rng, tier):
    n = 1100 if tier == "quick" else 14000
    cases = []
    for _ in range(n):
        how = rng.choice(["function"] * 7 + ["method", "method", "classmethod", "staticmethod"])
        sig = gen_sig(rng, how)
        pos, kw = gen_call(rng, sig, how in ("method", "classmethod"))
        if rng.random() < 0.02:
            g = gen_default_clash(rng, how)
            if g is not None:
                sig, pos, kw = g
        cases.append({"sig": sig, "how": how, "pos": pos, "kw": kw, "opts": gen_opts(rng, sig),
                      "body": gen_body(rng, sig, pos),
                      "nested": rng.choice([None, None, None, 0, 1, 2])})
        if how == "function" and rng.random() < 0.25:
            cases[-1]["stacked"] = True
        if cases[-1]["body"][0] == "raise" and rng.random() < 0.3:
            cases[-1]["extractor"] = rng.choice(["raise_base", "fields_base"])
    return cases


# ---------------------------------------------------------------- source of the generated function
def param_list(sig):
    def fmt(p):
        return p[0] + ("=_D[%d]" % p[2] if p[2] is not None else "")
    parts = []
    po = [p for p in sig if p[1] == "posonly"]
    parts += [fmt(p) for p in po]
    if po:
        parts.append("/")
    parts += [fmt(p) for p in sig if p[1] == "normal"]
    va = [p for p in sig if p[1] == "varargs"]
    ko = [p for p in sig if p[1] == "kwonly"]
    if va:
        parts.append("*" + va[0][0])
    elif ko:
        parts.append("*")
    parts += [fmt(p) for p in ko]
    parts += ["**" + p[0] for p in sig if p[1] == "varkw"]
    return ", ".join(parts)


def source(case):
    sig, how, body = case["sig"], case["how"], case["body"]
    rec = "{" + ", ".join("%r: %s" % (p[0], p[0]) for p in sig) + "}"
    if body[0] == "retparam":
        ret = "return %s" % body[1]
    else:
        ret = "return _BODY()"
    fn = ["@_dec", "def f(%s):" % param_list(sig), '    "doc of f"', "    _REC.append(%s)" % rec, "    " + ret]
    if how == "function" and case.get("stacked"):
        # log_call stacked on another functools.wraps-based decorator: a pass-through wrapper that notes how it
        # was called (which arguments positionally, which by keyword) and hands them on unchanged
        return "\n".join(fn[1:] + ["_inner = f", "@_dec", "@_wraps(_inner)", "def f(*args, **kwargs):",
                                   "    _HOW.append([args, dict(kwargs)])", "    return _inner(*args, **kwargs)"]) + "\n"
    if how == "function":
        return "\n".join(fn) + "\n"
    deco = {"method": [], "classmethod": ["@classmethod"], "staticmethod": ["@staticmethod"]}[how]
    return "class K:\n" + "\n".join("    " + l for l in deco + fn) + "\n"


# ---------------------------------------------------------------- implementation side
class V(object):
    __slots__ = ("n",)

    def __init__(self, n):
        self.n = n

    def __repr__(self):
        return "V(%d)" % self.n


def impl_calls(case):
    import inspect
    import eliot
    from eliot import _output, _errors, log_call, start_action
    from eliot._action import _ACTION_CONTEXT

    # pristine global state
    dest = _output.Destinations()
    _output.Logger._destinations = dest
    msgs = []
    dest.add(msgs.append)
    _errors._error_extraction.registry.clear()
    if case.get("extractor") == "raise_base":
        # an extractor registered for a BASE class of what the function raises, which fails on it
        def bad_extractor(e):
            raise RuntimeError("extractor failed")
        eliot.register_exception_extractor(Exception, bad_extractor)
    elif case.get("extractor") == "fields_base":
        eliot.register_exception_extractor(Exception, lambda e: {"xcode": 7})

    table = {}      # id(obj) -> number

    class Vals(dict):
        def __missing__(self, n):
            v = V(n)
            self[n] = v
            table[id(v)] = n
            return v
    D = Vals()
    body, opts, how = case["body"], case["opts"], case["how"]
    exc = None
    if body[0] == "raise":
        mod, cn = EXC[body[1]]
        cls = AppError if cn == "AppError" else getattr(__import__("builtins"), cn)
        exc = cls("reason%d" % body[2])
        table[id(exc)] = body[2]

    def _BODY():
        if exc is not None:
            raise exc
        return D[body[1]]

    REC = []
    keep = {}
    kwargs = {}
    if opts["action_type"] is not None or opts["explicit"]:
        kwargs["action_type"] = opts["action_type"]
    if opts["include_args"] is not None or opts["explicit"]:
        kwargs["include_args"] = opts["include_args"]
    if (not opts["include_result"]) or opts["explicit"]:
        kwargs["include_result"] = opts["include_result"]

    def _dec(fn):
        keep["orig"] = fn
        # Another function sharing fn's code object (as closures produced by one factory do) but with
        # other defaults is decorated first: nothing learnt about it may leak into fn's wrapper.
        try:
            import types as _types
            sib = _types.FunctionType(fn.__code__, fn.__globals__, fn.__name__, None, fn.__closure__)
            sib.__kwdefaults__ = None
            if fn.__defaults__:
                sib.__defaults__ = tuple(object() for _ in fn.__defaults__)
            if fn.__kwdefaults__:
                sib.__kwdefaults__ = {k: object() for k in fn.__kwdefaults__}
            sib.__module__, sib.__qualname__ = fn.__module__, fn.__qualname__ + "_sibling"
            log_call(sib)
        except Exception:
            pass
        w = log_call(**kwargs)(fn) if kwargs else log_call(fn)
        keep["wrapped"] = w
        return w

    import functools as _functools
    HOW = []
    ns = {"__name__": MODULE, "_dec": _dec, "_D": D, "_REC": REC, "_BODY": _BODY, "_HOW": HOW, "_wraps": _functools.wraps}
    obs = {}
    try:
        exec(source(case), ns)
        obs["decoration"] = "ok"
    except ValueError:
        obs["decoration"] = "ValueError" if "orig" in keep and "wrapped" not in keep else "ValueError?"
        return obs
    except Exception as e:
        obs["decoration"] = "%s: %s" % (type(e).__name__, e)
        return obs
    orig, w = keep["orig"], keep["wrapped"]
    pos = [D[i] for i in case["pos"]]
    kw = {k: D[i] for k, i in case["kw"]}
    if how == "function":
        plain_f, dec_f = orig, ns["f"]
    elif how == "staticmethod":
        plain_f, dec_f = orig, (ns["K"].f if len(case["pos"]) % 2 else ns["K"]().f)
    elif how == "method":
        o = ns["K"]()
        table[id(o)] = OBJ_ID
        plain_f, dec_f = (lambda *a, **k: orig(o, *a, **k)), o.f
    else:
        table[id(ns["K"])] = CLS_ID
        plain_f, dec_f = (lambda *a, **k: orig(ns["K"], *a, **k)), (ns["K"].f if len(case["pos"]) % 2 else ns["K"]().f)

    def canon(x):
        if id(x) in table:
            return table[id(x)]
        if type(x) is tuple:
            return {"t": [canon(y) for y in x]}
        if type(x) is dict:
            return {"d": sorted([[k, canon(y)] for k, y in x.items()])}
        return {"other": type(x).__name__}

    def run(f):
        del REC[:]
        del HOW[:]
        try:
            r = f(*pos, **kw)
            out = ["return", canon(r)]
        except BaseException as e:
            if id(e) in table:
                out = ["raise", table[id(e)]]
            elif isinstance(e, TypeError):
                out = ["TypeError"]
            elif isinstance(e, KeyError):
                out = ["KeyError", e.args[0] if e.args and isinstance(e.args[0], str) else "?"]
            else:
                out = ["other", "%s: %s" % (type(e).__name__, e)]
        return {"out": out, "rec": [sorted([[k, canon(v)] for k, v in r.items()]) for r in REC],
                "how": [[canon(a), canon(k)] for a, k in HOW]}

    obs["plain"] = run(plain_f)
    obs["plain_logged"] = len(msgs)
    del msgs[:]
    nested = case["nested"]
    ctx_before = _ACTION_CONTEXT.get(None)
    if nested is None:
        obs["dec"] = run(dec_f)
        mine = list(msgs)
        ref_uuid = mine[0].get("task_uuid") if mine else None
    else:
        with start_action(action_type="outer") as outer:
            for i in range(nested):
                eliot.log_message(message_type="m")
            before = len(msgs)
            inner_ctx = _ACTION_CONTEXT.get(None)
            obs["dec"] = run(dec_f)
            obs["ctx_restored"] = _ACTION_CONTEXT.get(None) is inner_ctx
            mine = msgs[before:]
        ref_uuid = msgs[0].get("task_uuid")
    obs.setdefault("ctx_restored", _ACTION_CONTEXT.get(None) is ctx_before)
    exc_str = str(exc) if exc is not None else None
    out = []
    for m in mine:
        cm = []
        for k, val in m.items():
            if id(val) in table or type(val) in (tuple, dict):
                c = canon(val)
            elif k == "task_uuid":
                c = "U" if (isinstance(val, str) and val == ref_uuid) else {"uuid?": repr(val)}
            elif k == "timestamp":
                c = "T" if isinstance(val, float) else {"time?": repr(val)}
            elif k in ("task_level", "action_status", "action_type", "exception"):
                c = val
            elif k == "reason":
                c = ["exc"] if (exc_str is not None and val == exc_str) else (["text"] if isinstance(val, str) else {"reason?": repr(val)})
            else:
                c = canon(val)
            cm.append([k, c])
        out.append(sorted(cm, key=lambda kv: kv[0]))
    obs["msgs"] = out

    def shape(s):
        return [[p.name, p.kind.name, p.default is not inspect.Parameter.empty] for p in s.parameters.values()]
    obs["meta"] = {
        "name": [w.__name__, orig.__name__],
        "doc": [w.__doc__, orig.__doc__],
        "qualname": [getattr(w, "__qualname__", None), orig.__qualname__],
        "module": [getattr(w, "__module__", None), orig.__module__],
        "sig_equal": inspect.signature(w) == inspect.signature(orig),
        "sig": str(inspect.signature(w)),
        "wrapped_is_orig": getattr(w, "__wrapped__", None) is orig,
    }
    return obs


# ---------------------------------------------------------------- model side
def _params(case):
    return [C("mkParam", Pos(NUM[n]), Raw(KINDS[k]), Some(Z(d)) if d is not None else None) for n, k, d in case["sig"]]


def model_pos(case):
    pos = list(case["pos"])
    if case["how"] == "method":
        pos = [OBJ_ID] + pos
    elif case["how"] == "classmethod":
        pos = [CLS_ID] + pos
    return pos


def qualname(case):
    return "f" if case["how"] == "function" else "K.f"


def level_of(case):
    return None if case["nested"] is None else [2 + case["nested"]]


def model_calls(case):
    if case.get("extractor"):
        return None          # the model's registry is empty (C03 has the extractor theorems): statement only
    body, o = case["body"], case["opts"]
    if body[0] == "ret":
        b = "(fun _ => BReturned %s)" % to_coq(Z(body[1]))
    elif body[0] == "raise":
        b = "(fun _ => BRaised (mkExn %s %s))" % (to_coq(Z(body[2])), to_coq(Pos(body[1] + 1)))
    else:
        b = "(fun b => match lookup %s b with Some (BVal v) => BReturned v | _ => BReturned 0%%Z end)" % to_coq(Pos(NUM[body[1]]))
    at = Some(Str(o["action_type"])) if o["action_type"] is not None else None
    inc = Some([Pos(NUM[n]) for n in o["include_args"]]) if o["include_args"] is not None else None
    lvl = level_of(case)
    parent = Some([Pos(k) for k in lvl]) if lvl is not None else None
    return ("let s := %s in let f := mkFn s %s %s %s in let o := mkOpts %s %s %s in let c := mkCall %s %s in "
            "(wf_sig s, decorate_ok f o, call_fn f c, bind s c, wrapper f o %s c)" % (
                to_coq(_params(case)), to_coq(Str(MODULE)), to_coq(Str(qualname(case))), b,
                to_coq(at), to_coq(inc), to_coq(bool(o["include_result"])),
                to_coq([Z(i) for i in model_pos(case)]), to_coq([(Pos(NUM[k]), Z(i)) for k, i in case["kw"]]),
                to_coq(parent)))


def _name(n):
    return NAMES[n - 1]


def _bval(v):
    if v[0] == "BVal":
        return v[1]
    if v[0] == "BTuple":
        return {"t": v[1]}
    return {"d": sorted([[_name(k), x] for k, x in v[1]])}


def _raised(r):
    if r == "RTypeError":
        return ["TypeError"]
    return ["raise", r[1][1]]                  # RExn (mkExn id cls)


def _outcome(v):
    if v[0] == "Returned":
        return ["return", v[1]]
    return _raised(v[1])


def _fval(v):
    if v == "FTime":
        return "T"
    if v == "FUuid":
        return "U"
    tag = v[0]
    if tag == "FArg":
        return _bval(v[1])
    if tag == "FResult":
        return v[1]
    if tag == "FStatus":
        return v[1].lower()
    if tag == "FType":
        return v[1][1]
    if tag == "FLevel":
        return v[1]
    if tag == "FExcName":
        r = v[1]
        if r == "RTypeError":
            return "builtins.TypeError"
        return "%s.%s" % EXC[r[1][2] - 1]
    if tag == "FReason":
        return ["exc"] if (v[1] != "RTypeError" and v[1][0] == "RExn") else ["text"]
    raise ValueError("fval %r" % (v,))


def model_obs_calls(case, parsed):
    wf, dec_ok, plain, bound, wr = flat(parsed, 5)
    if not wf:
        return {"model": "signature not well-formed"}
    if not dec_ok:
        return {"decoration": "ValueError"}
    out, msgs = wr
    res = {"decoration": "ok",
           "plain_out": _outcome(plain),
           "plain_rec": [sorted([[_name(k), _bval(b)] for k, b in bound[1]])] if bound != "TypeErr" else [],
           "dec_out": _outcome(out),
           "msgs": [sorted([[_name(k), _fval(v)] for k, v in m], key=lambda kv: kv[0]) for m in msgs]}
    return res


def project_calls(case, obs):
    if obs.get("decoration") != "ok":
        return {"decoration": obs.get("decoration")}
    return {"decoration": "ok", "plain_out": obs["plain"]["out"], "plain_rec": obs["plain"]["rec"],
            "dec_out": obs["dec"]["out"], "msgs": obs["msgs"]}


# ---------------------------------------------------------------- executable statement (from the property text)
def oracle_calls(case, obs):
    sig, o = case["sig"], case["opts"]
    names = [p[0] for p in sig]
    inc = o["include_args"]
    bad_inc = inc is not None and not set(inc) <= set(names)
    if bad_inc:
        if obs.get("decoration") != "ValueError":
            return "include_args %r names a non-parameter but decoration gave %r instead of ValueError" % (inc, obs.get("decoration"))
        return None
    if obs.get("decoration") != "ok":
        return "decorating a function with valid options failed: %r" % obs.get("decoration")
    plain, dec = obs["plain"], obs["dec"]
    if obs["plain_logged"]:
        return "the undecorated function logged %d messages" % obs["plain_logged"]
    # -- same outcome: same returned object, same raised object, TypeError iff the original raises TypeError
    if dec["out"] != plain["out"]:
        return "outcome differs: undecorated %r, decorated %r" % (plain["out"], dec["out"])
    if dec["rec"] != plain["rec"]:
        return "the function body ran with other arguments (or another number of times): undecorated %r, decorated %r" % (plain["rec"], dec["rec"])
    if not obs.get("ctx_restored", True):
        return "the current action was not restored after the decorated call"
    # -- metadata
    m = obs["meta"]
    if m["name"][0] != m["name"][1] or m["doc"][0] != m["doc"][1]:
        return "name/docstring not preserved: %r %r" % (m["name"], m["doc"])
    if not m["sig_equal"]:
        return "inspect.signature of the wrapper is %s" % m["sig"]
    valid = plain["out"][0] != "TypeError"
    if not valid:
        return None          # the text asks nothing about what is logged for an invalid argument list
    if dec.get("how") != plain.get("how"):
        return ("the wrapped callable was not invoked with the caller's arguments: undecorated saw (args, kwargs) = %r, "
                "decorated saw %r" % (plain.get("how"), dec.get("how")))
    # -- exactly one action, faithful start message, truthful end message
    msgs = [dict((k, v) for k, v in mm) for mm in obs["msgs"]]
    if case.get("extractor") == "raise_base" and case["body"][0] == "raise" and len(msgs) == 3 and "traceback" in msgs[1]:
        del msgs[1]          # the failing extractor's own traceback: logged in the surrounding context, not in the action
    if len(msgs) != 2:
        return "a valid call logged %d messages, expected the start and the end of one action" % len(msgs)
    start, end = msgs
    base = level_of(case) or []
    atype = o["action_type"] if o["action_type"] is not None else "%s.%s" % (m["module"][1], m["qualname"][1])
    if m["module"][1] != MODULE or m["qualname"][1] != qualname(case):
        return "harness: unexpected module/qualname %r" % (m,)
    for which, msg, lvl, status in (("start", start, base + [1], "started"), ("end", end, base + [2], None)):
        if msg.get("task_level") != lvl:
            return "%s message at level %r, expected %r" % (which, msg.get("task_level"), lvl)
        if msg.get("action_type") != atype:
            return "%s message has action_type %r, expected %r" % (which, msg.get("action_type"), atype)
        if msg.get("task_uuid") != "U" or msg.get("timestamp") != "T":
            return "%s message uuid/timestamp: %r %r" % (which, msg.get("task_uuid"), msg.get("timestamp"))
        if status and msg.get("action_status") != status:
            return "%s message has status %r" % (which, msg.get("action_status"))
    bound = dict((k, v) for k, v in plain["rec"][0])
    want = {k: v for k, v in bound.items() if k != "self" and (inc is None or k in inc) and k not in RESERVED}
    got = {k: v for k, v in start.items() if k not in RESERVED}
    if got != want:
        return "start message logs %r, Python binds %r (without self%s)" % (
            got, want, ", restricted to %r" % inc if inc is not None else "")
    if plain["out"][0] == "return":
        if end.get("action_status") != "succeeded":
            return "the function returned but the action ended %r" % end.get("action_status")
        extra = {k: v for k, v in end.items() if k not in RESERVED}
        want_end = {"result": plain["out"][1]} if o["include_result"] else {}
        if extra != want_end:
            return "end message carries %r, expected %r (include_result=%r)" % (extra, want_end, o["include_result"])
    else:
        if end.get("action_status") != "failed":
            return "the function raised but the action ended %r" % end.get("action_status")
        extra = {k: v for k, v in end.items() if k not in RESERVED}
        want_end = {"exception": "%s.%s" % EXC[case["body"][1]], "reason": ["exc"]}
        if case.get("extractor") == "fields_base":
            want_end["xcode"] = {"other": "int"}
        if extra != want_end:
            return "failed end message carries %r, expected %r" % (extra, want_end)
    return None


def kw_names_posonly(case):
    po = [p[0] for p in case["sig"] if p[1] == "posonly"]
    return [k for k, _ in case["kw"] if k in po]


def unfilled_posonly_default_kw(case):
    """a keyword names a positional-only parameter that has a default and is not filled positionally"""
    posp = [p for p in case["sig"] if p[1] in ("posonly", "normal")]
    kws = [k for k, _ in case["kw"]]
    return [p[0] for p in posp[len(model_pos(case)):] if p[1] == "posonly" and p[2] is not None and p[0] in kws]


def known_calls(case, obs, failure):
    names = [p[0] for p in case["sig"]]
    inc = case["opts"]["include_args"]
    if inc is not None and not set(inc) <= set(names):
        return None
    if unfilled_posonly_default_kw(case) and any(p[1] == "varkw" for p in case["sig"]):
        return "F3f-posonly-default-kw-clash"
    return None


def nontrivial_calls(case, obs):
    if obs.get("decoration") != "ok" or obs["plain"]["out"][0] == "TypeError" or not case["sig"]:
        return None
    return json.dumps([case["sig"], case["pos"], case["kw"], case["opts"], case["body"][0], case["how"]], sort_keys=True)


def ref_valid(case):
    """Python's binding rule, for the distribution report only"""
    sig, pos, kw = case["sig"], model_pos(case), case["kw"]
    slots = [p for p in sig if p[1] in ("posonly", "normal")]
    has_va = any(p[1] == "varargs" for p in sig)
    has_vk = any(p[1] == "varkw" for p in sig)
    bound = {p[0] for p in slots[:len(pos)]}
    if len(pos) > len(slots) and not has_va:
        return False
    for k, _ in kw:
        if any(p[0] == k and p[1] in ("normal", "kwonly") for p in sig):
            if k in bound:
                return False
            bound.add(k)
        elif not has_vk:
            return False
    return all(p[0] in bound or p[2] is not None for p in sig if p[1] in ("posonly", "normal", "kwonly"))


def describe_calls(case):
    d = [case["how"], "valid-call" if ref_valid(case) else "invalid-call", "nested" if case["nested"] is not None else "toplevel", "body:" + case["body"][0]]
    d += sorted({"kind:" + p[1] for p in case["sig"]})
    if case.get("stacked"):
        d.append("stacked-on-wraps-decorator")
    if any(p[2] is not None for p in case["sig"]):
        d.append("has-default")
    special = {"logger", "action_type", "_serializers", "self", "fields", "task_id", "result", "exception", "reason"}
    d += sorted({"name:" + p[0] for p in case["sig"] if p[0] in special or p[0] in RESERVED or p[0] == "_call"})
    o = case["opts"]
    names = [p[0] for p in case["sig"]]
    if o["include_args"] is not None:
        d.append("include_args:" + ("subset" if set(o["include_args"]) <= set(names) else "ValueError"))
    if not o["include_result"]:
        d.append("include_result=False")
    if o["action_type"] is not None:
        d.append("action_type given")
    if kw_names_posonly(case):
        d.append("keyword-names-posonly")
    if unfilled_posonly_default_kw(case):
        d.append("keyword-names-unfilled-posonly-with-default")
    return d


def shrink_calls(case):
    def variant(**kw):
        c = json.loads(json.dumps(case))
        c.update(kw)
        return c
    if case["nested"] is not None:
        yield variant(nested=None)
    o = case["opts"]
    for k, dflt in (("action_type", None), ("include_args", None), ("include_result", True), ("explicit", False)):
        if o[k] != dflt:
            o2 = dict(o)
            o2[k] = dflt
            yield variant(opts=o2)
    if case["how"] == "function":
        used = {k for k, _ in case["kw"]}
        for i, p in enumerate(case["sig"]):
            if case["body"][0] == "retparam" and case["body"][1] == p[0]:
                continue
            if p[1] in ("kwonly", "varkw", "varargs") and p[0] not in used:
                yield variant(sig=case["sig"][:i] + case["sig"][i + 1:],
                              opts=dict(o, include_args=[n for n in o["include_args"] if n != p[0]]
                                        if o["include_args"] is not None else None))
    for i in range(len(case["kw"])):
        yield variant(kw=case["kw"][:i] + case["kw"][i + 1:])
    if case["pos"]:
        yield variant(pos=case["pos"][:-1])
    if case["body"][0] != "ret":
        yield variant(body=["ret", 500])


FAMILIES = [
    Family("calls", gen_calls, impl_calls, model_calls, model_obs_calls, oracle_calls, nontrivial_calls,
           known=known_calls, imports=["Model.LogCall"], project=project_calls, corpus=CORPUS,
           shrink=shrink_calls, describe=describe_calls, shard=150, coq_shard=120),
]

LEVEL_TEXT = ("Coq theorems about the executable model of log_call (Python's binding rule, Signature.bind, the logged start/end "
              "messages): same outcome as the undecorated call and faithful argument log for every signature, parameter naming, call, "
              "option set and body under one guard (Signature.bind's deviation from Python's rule), with a refutation witness for the "
              "guard and for the pre-repair wrapper. Tied to /repo by running generated functions decorated and undecorated and "
              "comparing outcomes, recorded bindings and messages with the model evaluated in Coq, plus the property's executable "
              "statement on the real output.")
LEVEL_NOTE = ("Trusted: Coq kernel; hand-written model (Model/LogCall.v) tied by correspondence; CPython's binding as reference. "
              "inspect.Signature.bind is MODELLED (sigbind) and tied by the correspondence, not verified; functools.wraps' metadata "
              "preservation (__name__, __doc__, inspect.signature) is checked per case only.")


# ---- arguments/results that are mutable containers changed in place between and during calls, written to a JSON file ----
def gen_mutable(rng, tier):
    out = []
    for _ in range(30 if tier == "quick" else 400):
        out.append({"kind": rng.choice(["set", "set", "list", "dict"]), "init": rng.sample(range(10), rng.randrange(0, 3)),
                    "adds": rng.sample(range(10, 30), rng.randrange(1, 4)), "nested": rng.random() < 0.3,
                    # the enclosing action may already have logged its end message while it is still the current one
                    # (a task that outlives the block it was created in, code after finish() inside context())
                    "outer_finished": rng.random() < 0.3})
    return out


def impl_mutable(case):
    import io
    from eliot import _output, log_call, start_action, FileDestination
    d = _output.Destinations()
    _output.Logger._destinations = d
    f = io.BytesIO()
    d.add(FileDestination(file=f))

    @log_call
    def grow(box, x):
        if isinstance(box, set):
            box.add(x)
        elif isinstance(box, list):
            box.append(x)
        else:
            box[str(x)] = x
        return box
    box = {"set": set, "list": list, "dict": lambda xs: {str(x): x for x in xs}}[case["kind"]](case["init"])
    results = []

    def run():
        for x in case["adds"]:
            try:
                r = grow(box, x)
                results.append(r is box)
            except BaseException as e:
                results.append("%s: %s" % (type(e).__name__, e))
    if case.get("outer_finished"):
        outer = start_action(action_type="outer")
        with outer.context():
            outer.finish()
            run()
    elif case["nested"]:
        with start_action(action_type="outer"):
            run()
    else:
        run()
    lines = [json.loads(l) for l in f.getvalue().decode("utf-8").splitlines()]

    def norm(v):
        return sorted(v) if isinstance(v, list) else (sorted(v.values()) if isinstance(v, dict) else v)
    calls = [m for m in lines if str(m.get("action_type", "")).endswith("grow")]
    return {"results": results, "starts": [norm(m.get("box")) for m in calls if m["action_status"] == "started"],
            "ends": [[m["action_status"], norm(m.get("result"))] for m in calls if m["action_status"] != "started"]}


def oracle_mutable(case, obs):
    if obs["results"] != [True] * len(case["adds"]):
        return "the decorated function must return the very object the undecorated one returns: %r" % (obs["results"],)
    cur = sorted(case["init"])
    for k, x in enumerate(case["adds"]):
        if k >= len(obs["starts"]) or obs["starts"][k] != cur:
            return "call %d: start message logs box=%r, Python bound %r" % (k, obs["starts"][k] if k < len(obs["starts"]) else None, cur)
        cur = sorted(cur + [x])
        if k >= len(obs["ends"]) or obs["ends"][k] != ["succeeded", cur]:
            return "call %d: end message is %r, the function returned %r" % (k, obs["ends"][k] if k < len(obs["ends"]) else None, cur)
    return None


FAMILIES.append(Family("mutable_values", gen_mutable, impl_mutable, None, None, oracle_mutable,
                       lambda case, obs: json.dumps(case), shard=15, case_timeout=30))
