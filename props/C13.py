"""C13 — see properties.jsonl; family: generated logging programs."""
from lib import progs, oracles

ID = "C13"
PROPS_FILE = "Props/C13.v"
TRUSTED = []
ASSUMPTIONS = ["programs are generated from the documented AST (lib/progs.py); every spawned thread is joined"]
RULE = ("logging programs generated from VERIF_SEED (nesting depth <= 4..8, all API styles, fault stream per property); "
        "distinct by program text, non-trivial when at least 3 messages reached the destinations")
LEVEL_TEXT = "Coq theorems about _MessageSerializer.serialize in the model (field-by-field, stops at first failure) + correspondence + the statement: each declared field is the serializer applied exactly once (invocation counters), other fields untouched, caller's dict untouched (incl. Logger.write(dict)), failures produce exactly traceback + serialization_failure in the current context and the call returns."
LEVEL_NOTE = 'Trusted: Coq kernel; hand-written model Model/Core.v + Model/Prog.v tied to /repo by per-run correspondence on generated logging programs (real control flow, real threads for hand-offs); Python harness. Serializer functions come from a small library implemented on both sides (id, succ, double, const, fail, fail-on-negative); the theorems quantify over arbitrary functions.'

FAMILIES = [
    progs.program_family("programs", oracles.oracle_c13, 150, 3000, deep=dict(depth=5), **dict(p_globals=0.5, fault=0.3, registry_rate=0.0, p_fault_ser=0.3, p_typed=0.8, p_raw=0.12)),
]


# ---- two threads whose typed messages fail to serialize at the same time (line-granular schedules) ----
import json
from lib.framework import Family


def gen_threads(rng, tier):
    out = []
    for i in range(0, 90 if tier == "quick" else 220, 3 if tier == "quick" else 1):
        out.append({"segments": [[0, i], [1, 3000], [0, 3000]]})
        out.append({"segments": [[1, i], [0, 3000], [1, 3000]]})
    for _ in range(20 if tier == "quick" else 300):
        out.append({"sched": [rng.randrange(2) for _ in range(rng.randrange(0, 400))]})
    return out


def impl_threads(case):
    from lib.linesched import LineScheduler, segments_to_schedule, instrument
    from eliot import MessageType, Field, _output

    class Bad(Exception):
        pass

    def boom(v):
        raise Bad("cannot serialize %r" % (v,))
    d = _output.Destinations()
    _output.Logger._destinations = d
    got = []
    d.add(lambda m: got.append(dict(m)))
    types = [MessageType("typed:%d" % t, [Field("x", boom, "")], "") for t in range(2)]
    s = LineScheduler(files=("eliot/_output.py",))
    instrument(d, s)

    def make(t):
        return lambda: types[t].log(x=t)
    sched = case.get("sched")
    if sched is None:
        sched = segments_to_schedule([tuple(x) for x in case["segments"]])
    s.run([make(0), make(1)], sched)
    return {"results": s.results, "kinds": sorted(m.get("message_type") for m in got),
            "delivered_typed": [m.get("message_type") for m in got if str(m.get("message_type")).startswith("typed:")]}


def oracle_threads(case, obs):
    for r in obs["results"]:
        if not r or r[0] != "ok":
            return "a typed logging call raised: %r" % (r,)
    if obs["delivered_typed"]:
        return "a message whose serializer failed was delivered: %r" % obs["delivered_typed"]
    want = sorted(["eliot:traceback", "eliot:serialization_failure"] * 2)
    if obs["kinds"] != want:
        return "two failing typed messages produced %r, expected one traceback and one serialization_failure each" % (obs["kinds"],)
    return None


FAMILIES.append(Family("threads", gen_threads, impl_threads, None, None, oracle_threads,
                       lambda case, obs: json.dumps(case), shard=30, case_timeout=30))


# ---- the SAME typed message kind logged by two threads at once, and re-entrantly from inside a serializer ----
def gen_shared(rng, tier):
    out = [{"reentrant": k} for k in ("b", "a", "c")]
    for i in range(0, 150 if tier == "quick" else 400, 3 if tier == "quick" else 1):
        out.append({"segments": [[0, i], [1, 3000], [0, 3000]]})
        out.append({"segments": [[1, i], [0, 3000], [1, 3000]]})
    for _ in range(20 if tier == "quick" else 300):
        out.append({"sched": [rng.randrange(2) for _ in range(rng.randrange(0, 500))]})
    return out


def impl_shared(case):
    from lib.linesched import LineScheduler, segments_to_schedule, instrument
    from eliot import MessageType, ActionType, Field, _output
    d = _output.Destinations()
    _output.Logger._destinations = d
    got = []
    d.add(lambda m: got.append(dict(m)))
    calls = []
    holder = {}

    def ser(name):
        def f(v):
            calls.append([name, v])
            if case.get("reentrant") == name and v == "outer-" + name:
                # a serializer that itself logs a message of the same kind (e.g. describing a child object)
                holder["T"].log(a="inner-a", b="inner-b", c="inner-c")
            return ["S", name, v]
        return f
    T = MessageType("typed:shared", [Field("a", ser("a"), ""), Field("b", ser("b"), ""), Field("c", ser("c"), "")], "")
    holder["T"] = T
    if case.get("reentrant"):
        try:
            T.log(a="outer-a", b="outer-b", c="outer-c")
            results = [["ok", None]]
        except BaseException as e:
            results = [["raised", type(e).__name__]]
        want = ["inner", "outer"]
    else:
        s = LineScheduler(files=("eliot/_output.py", "eliot/_validation.py"))
        instrument(d, s)

        vals = {t: {k: "t%d-%s" % (t, k) for k in "abc"} for t in (0, 1)}     # the same value objects both times

        def make(t):
            def body():
                T.log(**vals[t])
                T.log(**vals[t])
            return body
        sched = case.get("sched")
        if sched is None:
            sched = segments_to_schedule([tuple(x) for x in case["segments"]])
        s.run([make(0), make(1)], sched)
        results = s.results
        want = ["t0", "t1"]
    msgs = [{k: m.get(k) for k in ("message_type", "a", "b", "c")} for m in got]
    return {"results": results, "msgs": msgs, "calls": calls, "want": want, "times": 1 if case.get("reentrant") else 2}


def oracle_shared(case, obs):
    for r in obs["results"]:
        if not r or r[0] != "ok":
            return "a typed logging call raised: %r" % (r,)
    typed = [m for m in obs["msgs"] if m["message_type"] == "typed:shared"]
    if len(typed) != len(obs["msgs"]):
        return "unexpected extra messages: %r" % [m["message_type"] for m in obs["msgs"]]
    for who in obs["want"]:
        exp = {"message_type": "typed:shared", "a": ["S", "a", who + "-a"], "b": ["S", "b", who + "-b"], "c": ["S", "c", who + "-c"]}
        times = obs.get("times", 1)
        n = sum(1 for m in typed if m == exp)
        if n != times:
            return ("the message logged %d time(s) with values %s-a/%s-b/%s-c must arrive as often, each declared field replaced by "
                    "its own serializer's output; delivered: %r" % (times, who, who, who, typed))
        for name in "abc":
            k = sum(1 for c in obs["calls"] if c == [name, "%s-%s" % (who, name)])
            if k != times:
                return "serializer of field %s ran %d times for the value %s-%s" % (name, k, who, name)
    if len(typed) != len(obs["want"]) * obs.get("times", 1):
        return "%d typed messages delivered, %d logged" % (len(typed), len(obs["want"]) * obs.get("times", 1))
    return None


FAMILIES.append(Family("shared_type", gen_shared, impl_shared, None, None, oracle_shared,
                       lambda case, obs: json.dumps(case), shard=30, case_timeout=30))


# ---- serialization failures while the current action belongs to another logger: the reports go where the write went ----
from props import C08 as _c08

FAMILIES.append(Family("foreign_logger", _c08.gen_foreign, _c08.impl_foreign, None, None, _c08.oracle_foreign,
                       lambda case, obs: json.dumps(case) if case["outer"] != "none" and any(o[0] in ("raw_badser", "child") for o in case["ops"]) else None,
                       shard=30, case_timeout=30))


# ---- a typed action finished explicitly while it is still current, its end message failing to serialize: the two reports
# belong to the current context (that action) -------------------------------------------------------------------------------
def gen_finish_current(rng, tier):
    out = [{"how": how, "before": 1, "after": 1, "outer": True, "bad": bad, "extractor_none": en}
           for how in ("context", "run", "with") for bad in ("raises", "missing") for en in (False, True)]
    for _ in range(8 if tier == "quick" else 120):
        out.append({"how": rng.choice(["context", "run", "with"]), "before": rng.randrange(0, 3), "after": rng.randrange(0, 3),
                    "outer": rng.random() < 0.7, "bad": rng.choice(["raises", "missing"]),
                    # an exception extractor registered for the serializer's exception class that is itself broken
                    # (returns None instead of a dictionary)
                    "extractor_none": rng.random() < 0.3})
    return out


def impl_finish_current(case):
    from eliot import _output, start_action, log_message, ActionType, Field
    d = _output.Destinations()
    _output.Logger._destinations = d
    got = []
    d.add(lambda m: got.append(dict(m)))

    class Bad(Exception):
        pass

    def boom(v):
        raise Bad("cannot serialize")
    if case.get("extractor_none"):
        from eliot import register_exception_extractor
        register_exception_extractor(Bad, lambda e: None)
    T = ActionType("fc:typed", [Field("a", lambda v: v, "")], [Field("b", boom if case["bad"] == "raises" else (lambda v: v), "")], "")
    raised = []

    def body():
        a = T(a=1)
        prefix = None

        def inside():
            for _ in range(case["before"]):
                log_message("fc:before")
            if case["bad"] == "raises":
                a.add_success_fields(b=2)
            a.finish()                      # the declared success field fails to serialize / is missing
            for _ in range(case["after"]):
                log_message("fc:after")
        if case["how"] == "context":
            with a.context():
                inside()
        elif case["how"] == "run":
            a.run(inside)
        else:
            with a:
                inside()
    try:
        if case["outer"]:
            with start_action(action_type="fc:outer"):
                body()
        else:
            body()
    except BaseException as e:
        raised.append("%s: %s" % (type(e).__name__, e))
    return {"raised": raised,
            "msgs": [[m.get("task_uuid"), m.get("task_level"), m.get("message_type") or m.get("action_type"), m.get("action_status")] for m in got]}


def oracle_finish_current(case, obs):
    if obs["raised"]:
        return "a logging call raised: %s" % obs["raised"][0]
    starts = [m for m in obs["msgs"] if m[2] == "fc:typed" and m[3] == "started"]
    if len(starts) != 1:
        return "typed action logged %d start messages" % len(starts)
    u, prefix = starts[0][0], starts[0][1][:-1]
    if any(m[2] == "fc:typed" and m[3] in ("succeeded", "failed") for m in obs["msgs"]):
        return "the end message whose serialization failed was delivered"
    reports = [m for m in obs["msgs"] if m[2] in ("eliot:traceback", "eliot:serialization_failure")]
    want = ["eliot:serialization_failure", "eliot:traceback"]
    if case.get("extractor_none") and case["bad"] == "raises":
        want.append("eliot:traceback")       # the broken extractor's own failure is logged as well
    if sorted(m[2] for m in reports) != want:
        return "expected %r, got %r" % (want, [m[2] for m in reports])
    for m in reports:
        if m[0] != u or m[1][:-1] != prefix:
            return ("%s logged at %r of task %s: the action that was current when finish() failed to serialize is %r of task %s"
                    % (m[2], m[1], m[0][:8], prefix, u[:8]))
    return None


FAMILIES.append(Family("finish_while_current", gen_finish_current, impl_finish_current, None, None, oracle_finish_current,
                       lambda case, obs: json.dumps(case), shard=6, case_timeout=30))
