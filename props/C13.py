"""C13 — see properties.jsonl; family: generated logging programs."""
from lib import progs, oracles

ID = "C13"
PROPS_FILE = "Props/C13.v"
TRUSTED = []
ASSUMPTIONS = ["programs are generated from the documented AST (lib/progs.py); every spawned thread is joined"]
RULE = ("logging programs generated from VERIF_SEED (nesting depth <= 4..8, all API styles, fault stream per property); "
        "distinct by program text, non-trivial when at least 3 messages reached the destinations")
LEVEL_TEXT = "Coq theorems about _MessageSerializer.serialize in the model (field-by-field, stops at first failure) + correspondence + the statement: each declared field is the serializer applied exactly once (invocation counters), other fields untouched, caller's dict untouched (incl. Logger.write(dict)), failures produce exactly traceback + serialization_failure in the current context and the call returns."
LEVEL_NOTE = 'Trusted: Coq kernel; hand-written model Model/Core.v + Model/Prog.v tied to /repo by per-run correspondence on generated logging programs (real control flow, real threads for hand-offs); Python harness. Serializer functions come from a small library implemented on both sides (id, succ, double, const, fail, fail-on-negative); the theorems quantify over arbitrary functions.'

FAMILIES = [
    progs.program_family("programs", oracles.oracle_c13, 150, 3000, deep=dict(depth=5), **dict(p_globals=0.5, fault=0.3, registry_rate=0.0, p_fault_ser=0.3, p_typed=0.8, p_raw=0.12)),
]
