"""C09 — parsing is order-independent and detects task completeness exactly."""
import itertools
import json

from lib import forests
from lib.framework import Family
from lib.coqbridge import to_coq, flat

ID = "C09"
PROPS_FILE = "Props/C09.v"
TRUSTED = ["pyrsistent pmap/pset behave as finite maps/sets (model: sorted association lists)"]
ASSUMPTIONS = ["messages are those of well-formed tasks (levels assigned by the library's counter rule); each message appears at most once"]
RULE = ("forests generated from VERIF_SEED (1-4 tasks, depth <= 4/6, remote sub-tasks, failed actions, context-less messages); "
        "per forest several arrival orders (all permutations when <= 6 messages) and subsets; distinct by (messages, order); "
        "non-trivial when the arrival order is not the emission order or a message is missing")
LEVEL_TEXT = ("Coq theorems about the parser model (Model/Parser.v) + step-by-step correspondence with the real Parser.add "
              "(completed tasks after every message, final trees via the public API) + the statement: no error for any subset/order, "
              "final result equal across orders (also with the real ==), a task is reported complete exactly at the arrival of its last message, once.")
LEVEL_NOTE = ("Trusted: Coq kernel; hand-written parser model tied by correspondence; pyrsistent. Partial: the order-independence theorem "
              "for the whole parser (parser_spec) is stated in DESIGN.md and proved as far as Props/C09.v lists.")


def gen(rng, tier):
    n = 60 if tier == "quick" else 1200
    cases = []
    for i in range(n):
        big = tier == "thorough" and i % 4 == 0
        if i % 10 == 9:
            # a wide action: 20-30 children, several of them sub-actions (positions [2] and [2x] both
            # hold actions), delivered in shuffled orders
            kids = []
            for k in range(rng.randrange(20, 31)):
                if k in (0, 18, 19, 20) or rng.random() < 0.25:
                    kids.append(["A", rng.choice([10, 11]), "succeeded", [["M", 12]] if rng.random() < 0.5 else []])
                else:
                    kids.append(["M", 13])
            forest = [["A", 10, "succeeded", kids]]
        else:
            forest = forests.gen_forest(rng, rng.randrange(1, 5), 6 if big else 4, 4 if big else 3)
        msgs = forests.linearize(forest)
        if len(msgs) > (400 if big else 90):
            continue
        ids = list(range(len(msgs)))
        orders = []
        if len(ids) <= 5 and rng.random() < 0.5:
            orders = [list(p) for p in itertools.permutations(ids)]
        else:
            orders.append(list(ids))
            orders.append(list(reversed(ids)))
            for _ in range(3):
                o = list(ids)
                rng.shuffle(o)
                orders.append(o)
        # subsets: drop a start / an end / an inner message / a random sample
        for _ in range(3):
            if not ids:
                break
            kind = rng.choice(["start", "end", "inner", "random"])
            if kind == "random":
                drop = set(rng.sample(ids, rng.randrange(1, max(2, len(ids) // 2 + 1))))
            else:
                cand = [j for j in ids if (msgs[j]["s"] == "started") == (kind == "start")
                        and ((msgs[j]["s"] in ("succeeded", "failed")) == (kind == "end"))
                        and ((msgs[j]["s"] is None) == (kind == "inner"))]
                drop = {rng.choice(cand)} if cand else set()
            sub = [j for j in ids if j not in drop]
            o2 = list(sub)
            rng.shuffle(o2)
            orders.append(sub)
            orders.append(o2)
        # interleavings of whole tasks: each task's messages in emission order, tasks merged at random,
        # some tasks left incomplete (their tail cut): one task completes while older ones are still open,
        # new ones start afterwards, several are still open at the end of the stream
        tasks = {}
        for j in ids:
            tasks.setdefault(msgs[j]["u"], []).append(j)
        if len(tasks) >= 2:
            for _ in range(3):
                seqs = []
                for u, js in tasks.items():
                    js = list(js)
                    if rng.random() < 0.5 and len(js) > 1:
                        js = js[:rng.randrange(1, len(js))]
                    seqs.append(js)
                # staggered starts: a later task may begin only after an earlier one progressed
                merged = []
                live = [seqs.pop(0)]
                while live or seqs:
                    if seqs and (not live or rng.random() < 0.3):
                        live.append(seqs.pop(0))
                    k = rng.randrange(len(live))
                    burst = rng.choice([1, 1, 2, 100])
                    for _ in range(burst):
                        if live[k]:
                            merged.append(live[k].pop(0))
                    live = [x for x in live if x]
                orders.append(merged)
        cases.append({"msgs": msgs, "orders": orders})
    return cases


def impl(case):
    from eliot.parse import Parser
    dicts = [forests.to_dict(m) for m in case["msgs"]]
    results = []
    finals = []
    for order in case["orders"]:
        parser = Parser()
        steps = []
        tasks = {}
        err = None
        for j in order:
            try:
                done, parser = parser.add(dicts[j])
            except Exception as e:
                err = type(e).__name__
                break
            step = []
            for t in done:
                u = t.root().task_uuid
                step.append(u)
                tasks.setdefault(u, []).append(t)
            steps.append(sorted(step))
        if err is None:
            for t in parser.incomplete_tasks():
                tasks.setdefault(t.root().task_uuid, []).append(t)
        dump = {u: [[t.is_complete(), forests.dump_real(t.root())] for t in ts] for u, ts in tasks.items()}
        results.append({"error": err, "steps": steps, "tasks": dump})
        finals.append(tasks)
        # parse_stream must agree with add-by-add
        if err is None:
            try:
                streamed = list(Parser.parse_stream([dicts[j] for j in order]))
                sdump = {}
                for t in streamed:
                    sdump.setdefault(t.root().task_uuid, []).append([t.is_complete(), forests.dump_real(t.root())])
                results[-1]["stream_same"] = (sdump == dump)
                results[-1]["stream_order_ok"] = [t.is_complete() for t in streamed] == sorted([t.is_complete() for t in streamed], reverse=True)
                # a lazy input: how many messages had been read when each task was handed out
                consumed = [0]

                def lazy():
                    for j in order:
                        consumed[0] += 1
                        yield dicts[j]
                results[-1]["stream_when"] = [[t.root().task_uuid, bool(t.is_complete()), consumed[0]]
                                              for t in Parser.parse_stream(lazy())]
            except Exception as e:
                results[-1]["stream_same"] = "error:" + type(e).__name__
    # real == across orders with the same set of messages
    eq = []
    for a in range(len(case["orders"])):
        for b in range(a + 1, len(case["orders"])):
            if sorted(case["orders"][a]) == sorted(case["orders"][b]) and results[a]["error"] is None and results[b]["error"] is None:
                ta, tb = finals[a], finals[b]
                same = set(ta) == set(tb) and all(len(ta[u]) == len(tb[u]) and all(x == y for x, y in zip(ta[u], tb[u])) for u in ta)
                eq.append([a, b, bool(same)])
    return {"runs": results, "eq": eq}


def model_expr(case):
    msgs = [forests.c_pmsg(m) for m in case["msgs"]]
    orders = [[("nth %d ms dflt" % j) for j in o] for o in case["orders"]]
    return ("let dflt := mkPmsg 0 [] None None 0 in let ms := %s in map (fun o => parse_trace [] o) [%s]"
            % (to_coq(msgs), "; ".join("[" + "; ".join(o) + "]" for o in orders)))


def model_obs(case, parsed):
    runs = []
    for order, r in zip(case["orders"], parsed):
        if r[0] == "PErr":
            runs.append({"error": "error", "steps": None, "tasks": None})
            continue
        steps_raw, rest = r[1]
        tasks = {}
        steps = []
        for done in steps_raw:
            step = []
            for t in done:
                d = forests.model_task(t)
                u = "uuid-%d" % _uuid_of_task(t)
                step.append(u)
                tasks.setdefault(u, []).append(d)
            steps.append(sorted(step))
        for u, t in rest:
            tasks.setdefault("uuid-%d" % u, []).append(forests.model_task(t))
        runs.append({"error": None, "steps": steps, "tasks": tasks})
    return {"runs": runs}


def _uuid_of_task(t):
    _, nodes, completed = t
    for k, n in nodes:
        if n[0] == "NMsg":
            return n[1][1]
        return n[4]
    return -1


def project(case, obs):
    return {"runs": [{"error": ("error" if r["error"] else None), "steps": None if r["error"] else r["steps"],
                      "tasks": None if r["error"] else r["tasks"]} for r in obs["runs"]]}


def oracle(case, obs):
    msgs = case["msgs"]
    by_task = {}
    for m in msgs:
        by_task.setdefault(m["u"], []).append(m["id"])
    for order, r in zip(case["orders"], obs["runs"]):
        if r["error"]:
            return "parser raised %s on a subset/order of well-formed messages (order %r)" % (r["error"], order)
        present = set(order)
        seen = set()
        reported = {}
        for step, j in zip(r["steps"], order):
            seen.add(j)
            for u in step:
                if u in reported:
                    return "task %s reported complete twice" % u
                reported[u] = j
            u = msgs[j]["u"]
            full = all(x in seen for x in by_task[u])
            name = "uuid-%d" % u
            if full and name not in step:
                return "task %s not reported complete when its last message (%d) arrived" % (name, j)
            if not full and name in step:
                return "task %s reported complete at message %d although messages are missing" % (name, j)
        for u, ts in r["tasks"].items():
            if len(ts) != 1:
                return "task %s yielded %d times" % (u, len(ts))
            uu = int(u.split("-")[1])
            full = all(x in present for x in by_task[uu])
            if ts[0][0] != full:
                return "task %s is_complete=%s but all messages present=%s" % (u, ts[0][0], full)
        if set(r["tasks"]) != {"uuid-%d" % msgs[j]["u"] for j in order}:
            return "tasks yielded %r do not match the tasks that have messages" % sorted(r["tasks"])
        if r.get("stream_same") is not True and order:
            return "parse_stream differs from message-by-message add: %r" % (r.get("stream_same"),)
        if r.get("stream_order_ok") is False:
            return "parse_stream yielded an incomplete task before a completed one"
        if "stream_when" in r:
            done_at = {}
            for i, step in enumerate(r["steps"]):
                for u in step:
                    done_at[u] = i + 1
            for u, complete, consumed in r["stream_when"]:
                if complete and consumed != done_at.get(u):
                    return ("parse_stream (lazy input) handed out completed task %s after reading %d messages; its last "
                            "message was number %r" % (u, consumed, done_at.get(u)))
                if not complete and consumed != len(order):
                    return "parse_stream handed out incomplete task %s before the end of the input" % u
            if sorted(u for u, _, _ in r["stream_when"]) != sorted(r["tasks"]):
                return "parse_stream (lazy input) handed out tasks %r, message-by-message parsing %r" % (
                    sorted(u for u, _, _ in r["stream_when"]), sorted(r["tasks"]))
    # same set of messages => same final result
    runs = obs["runs"]
    for a in range(len(runs)):
        for b in range(a + 1, len(runs)):
            if sorted(case["orders"][a]) == sorted(case["orders"][b]):
                if runs[a]["tasks"] != runs[b]["tasks"]:
                    return "final trees differ between arrival orders %r and %r" % (case["orders"][a], case["orders"][b])
    for a, b, same in obs["eq"]:
        if not same:
            return "Task objects differ (==) between arrival orders %r and %r" % (case["orders"][a], case["orders"][b])
    return None


def nontrivial(case, obs):
    n = len(case["msgs"])
    return json.dumps([case["msgs"], case["orders"]]) if n >= 3 else None


def describe(case):
    n = len(case["msgs"])
    out = ["msgs:%s" % ("<=5" if n <= 5 else "<=20" if n <= 20 else "<=60" if n <= 60 else ">60"),
           "tasks:%d" % len({m["u"] for m in case["msgs"]})]
    if any(m["t"] == 4 for m in case["msgs"]):
        out.append("remote_subtask")
    out.append("orders:%d" % len(case["orders"]))
    out.append("subsets:%d" % sum(1 for o in case["orders"] if len(o) < n))
    return out


# ---- long streams: more than 1000/2000 messages, tasks straddling any internal batching ------------------------
def gen_long(rng, tier):
    cases = []
    for i in range(2 if tier == "quick" else 10):
        target = rng.choice([1050, 2100, 3300]) if i % 2 else 1200
        forest = []
        while len(forests.linearize(forest)) < target:
            forest += forests.gen_forest(rng, 8, 4, 3)
        msgs = forests.linearize(forest)
        ids = list(range(len(msgs)))
        tasks = {}
        for j in ids:
            tasks.setdefault(msgs[j]["u"], []).append(j)
        # a few long-lived tasks open from the start to the end, the others come and go in between
        seqs = [list(js) for js in tasks.values()]
        rng.shuffle(seqs)
        longlived, rest = seqs[:5], seqs[5:]
        merged = [s.pop(0) for s in longlived if s]
        live = []
        while rest or live:
            if rest and (len(live) < 4 or rng.random() < 0.2):
                live.append(rest.pop(0))
            k = rng.randrange(len(live))
            for _ in range(rng.choice([1, 1, 2, 5])):
                if live[k]:
                    merged.append(live[k].pop(0))
            live = [x for x in live if x]
            if rng.random() < 0.02:
                for s in longlived:
                    if len(s) > 1:
                        merged.append(s.pop(0))
        for s in longlived:
            merged += s
        drop = set(rng.sample(ids, 3))
        cases.append({"msgs": msgs, "orders": [merged, [j for j in merged if j not in drop]]})
    # one task with more than a thousand distinct positions: a nested action's messages arrive before and after them,
    # and a small second task is split around the whole of it
    for width in ([1100] if tier == "quick" else [1100, 1500, 2300]):
        forest = [["A", 10, "succeeded", [["A", 11, "succeeded", [["M", 12], ["A", 10, "succeeded", [["M", 13]]]]]] + [["M", 13]] * width],
                  ["A", 11, "succeeded", [["M", 12], ["A", 10, "failed", [["M", 12]]]]]]
        msgs = forests.linearize(forest)
        t0 = [m["id"] for m in msgs if m["u"] == msgs[0]["u"]]
        t1 = [m["id"] for m in msgs if m["u"] != msgs[0]["u"]]
        nested = [j for j in t0 if len(msgs[j]["l"]) >= 2]
        flat_ = [j for j in t0 if len(msgs[j]["l"]) < 2]
        split = nested[:2] + t1[:2] + flat_ + t1[2:] + nested[2:]
        cases.append({"msgs": msgs, "orders": [split, list(reversed(split))]})
    return cases


def nontrivial_long(case, obs):
    return json.dumps([len(case["msgs"]), case["orders"][0][:50]])


FAMILIES = [
    Family("forests", gen, impl, model_expr, model_obs, oracle, nontrivial, imports=["Base.Level", "Model.Parser"],
           project=project, describe=describe, shard=20, coq_shard=10, case_timeout=30),
    # no model evaluation here (a thousand-message association list per step is slow inside Coq): the statement only
    Family("long_streams", gen_long, impl, None, None, oracle, nontrivial_long, describe=describe, shard=1, case_timeout=120),
]
