"""C04 — see properties.jsonl; family: generated logging programs."""
from lib import progs, oracles

ID = "C04"
PROPS_FILE = "Props/C04.v"
TRUSTED = ["contextvars.ContextVar set/reset(token) semantics"]
ASSUMPTIONS = ["programs are generated from the documented AST (lib/progs.py); every spawned thread is joined"]
RULE = ("logging programs generated from VERIF_SEED (nesting depth <= 4..8, all API styles, fault stream per property); "
        "distinct by program text, non-trivial when at least 3 messages reached the destinations")
LEVEL_TEXT = 'Coq theorems about the context variable (set visible only in its own context; restore) + correspondence of current_action() probes after every statement + the statement: probe equals the innermost open scoping construct of that context; start_task begins a new tree; children attach to the action current at their start.'
LEVEL_NOTE = 'Trusted: Coq kernel; hand-written model Model/Core.v + Model/Prog.v tied to /repo by per-run correspondence on generated logging programs (real control flow, real threads for hand-offs); Python harness. contextvars semantics (per-thread default context) is assumed, exercised by the correspondence.'

FAMILIES = [
    progs.program_family("programs", oracles.oracle_c04, 120, 2500, deep=dict(depth=8, width=3), **dict(fault=0.2, registry_rate=0.3, p_reenter=0.3, p_raise=0.3, p_try=0.25, p_task=0.15, depth=5, p_reserved=0.2, p_reseed=0.25)),
]

from lib import oplists
from lib.framework import Family
import json


def gen_scripts(rng, tier):
    n = 80 if tier == "quick" else 1500
    return [oplists.gen_script(rng, late_add=False, n_ops=rng.randrange(6, 24), fault=0.2, p_finish_open=0.12) for i in range(n)]


def oracle_scripts(case, obs):
    bad = oracles.note_failures(obs, ("probe_mismatch", "logging_raised", "foreign_exception"))
    if bad:
        return bad
    for i, ms in obs.get("raw", {}).items():
        bad = oplists.attribution(case, ms)      # children attach to the action current at their start
        if bad:
            return bad
    return None


FAMILIES.append(Family("scripts", gen_scripts, oplists.run_case, oplists.model_expr, oplists.model_obs, oracle_scripts,
                       lambda case, obs: json.dumps(case["ops"]) if sum(1 for o in case["ops"] if o[0] == "enter") >= 2 else None,
                       imports=["Model.Core", "Model.Prog"], project=oplists.project, describe=oplists.describe,
                       shard=40, coq_shard=60))


# ---- `with action:` blocks inside generators, left by close()/throw()/exhaustion (the generator model of C15) ----
from props import C15 as _c15


def gen_generators(rng, tier):
    # scripts in which a generator is closed or thrown into while suspended (inside or outside an action block)
    cases = [c for c in _c15.gen_scripts(rng, tier)
             if any(s[0] == "resume" and s[2][0] in ("close", "throw") for s in c["script"])]
    return cases[:100 if tier == "quick" else 3000]


FAMILIES.append(Family("generators", gen_generators, _c15.impl_scripts, _c15.model_scripts, _c15.model_obs_scripts,
                       _c15.oracle_scripts, _c15.nontrivial_scripts, imports=["Model.Generators"],
                       project=_c15.project_scripts, shrink=_c15.shrink_scripts, describe=_c15.describe_scripts,
                       shard=100, coq_shard=30))


# fixed feature programs (lib/progs.py CORPUS_FEATURES) run first under every seed
for _f in FAMILIES:
    if _f.name in ("programs", "roundtrip"):
        _f.corpus = list(_f.corpus or []) + [dict(c) for c in progs.CORPUS_FEATURES]


# ---- actions created in one thread and run (with / context() / run()) in another: the block still scopes the current action
from props import C05 as _c05

FAMILIES.append(Family("dispatch", _c05.gen_mt, oplists.run_case, oplists.model_expr, oplists.model_obs, _c05.oracle_mt, _c05.nontrivial_mt,
                       imports=["Model.Core", "Model.Prog"], project=oplists.project, describe=oplists.describe,
                       shard=20, coq_shard=60, case_timeout=60))
