"""C11 — a crash loses no acknowledged message and leaves a parseable log."""
import json
import os
import random

from lib import progs, oracles, forests
from lib.framework import Family, ROOT, PY
from lib.coqbridge import to_coq, Nat, NN, flat

ID = "C11"
PROPS_FILE = "Props/C11.v"
TRUSTED = ["after flush() returns the bytes survive the death of the process; a write cut by a kill leaves a byte prefix (OS facts, exercised by the SIGKILL family, not provable)"]
ASSUMPTIONS = ["one FileDestination over a binary file; no failing destinations in this family"]
RULE = ("crashpoints: generated programs x every kind of crash point (before/inside a write with a byte cut, between write and flush, "
        "after the flush) simulated inside the file object; sigkill: real child processes killed with SIGKILL at seed-chosen delays; "
        "distinct by (program, crash point); non-trivial when at least two messages were on disk")
LEVEL_TEXT = ("Coq theorem: for every message list and every crash point (event index, byte cut) the complete lines on disk are the "
              "first j lines with j >= the number of acknowledged calls and the trailing fragment is a prefix of line j+1 "
              "(Model/Crash.v) + correspondence of the on-disk content with that model at simulated crash points of the real "
              "FileDestination + the statement on real output (acked subset of complete lines, lines are a prefix of the emission, the "
              "real parser never fails on them, no task complete unless all of its messages are there, unfinished actions have no end) "
              "+ real SIGKILL runs.")
LEVEL_NOTE = ("Partial: durability of flushed bytes across SIGKILL and the shape of a torn write are OS facts outside the model "
              "(trusted, exercised by the sigkill family). Parser behaviour on a prefix of the emission follows from the C09 theorems.")


def gen_crash(rng, tier):
    n = 60 if tier == "quick" else 1000
    out = []
    for i in range(n):
        case = progs.gen_case(rng, n_dests=1, fault=0.0, registry_rate=0.3, p_fault_ser=0.0, p_typed=0.2, depth=4,
                              p_handoff=0.05, p_reserved=0.25)
        case["registry"] = [r for r in case["registry"] if r[1][0] == "fields"]
        nmsg_guess = 2 * sum(1 for _ in json.dumps(case["prog"]).split('"act"')) + 2
        at = rng.randrange(0, max(2, 2 * nmsg_guess))
        cut = rng.choice([None, 0, 1, 5, 40, 10 ** 6]) if at % 2 == 0 else None
        case["pre"][0][1].append([9, ["crashfile", at, cut], {"id": 0, "cls": 15, "text": 1, "sr": False}])
        out.append(case)
    # the fixed feature programs (lib/progs.py CORPUS_FEATURES), crashed late and not at all
    for c in progs.CORPUS_FEATURES:
        if any(x[1][0] != "fields" for x in c["registry"]):
            continue
        for at in (10 ** 6, 2 * (2 + json.dumps(c["prog"]).count('"act"'))):
            c2 = json.loads(json.dumps(c))
            c2["pre"][0][1].append([9, ["crashfile", at, None], {"id": 0, "cls": 15, "text": 1, "sr": False}])
            out.append(c2)
    return out


def _split(buf):
    parts = buf.split(b"\n")
    return parts[:-1], parts[-1]


def _analyse(lines, full_canon_prefix_source, interp):
    """decode complete lines, canonicalise, parse with the real parser"""
    from eliot.parse import Parser, WrittenAction
    decoded, bad = [], None
    for i, ln in enumerate(lines):
        try:
            d = json.loads(ln)
            if not isinstance(d, dict):
                raise ValueError("not an object")
            decoded.append(d)
        except ValueError as e:
            bad = "line %d is not valid JSON: %s" % (i, e)
            break
    res = {"bad_line": bad}
    if bad:
        return res, decoded
    res["canon"] = progs.rename_uuids({"dests": [[9, [progs.canon_msg(d, interp) for d in decoded]]]})["dests"][0][1]
    try:
        tasks = list(Parser.parse_stream([dict(d, id=i) for i, d in enumerate(decoded)]))
        info = []

        def walk(n, acc):
            if isinstance(n, WrittenAction):
                acc.append([None if n.start_message is None else n.start_message.contents["id"],
                            None if n.end_message is None else n.end_message.contents["id"], n.status])
                for c in n.children:
                    walk(c, acc)
        for t in tasks:
            acc = []
            walk(t.root(), acc)
            info.append({"uuid": t.root().task_uuid, "complete": t.is_complete(), "actions": acc,
                         "ids": forests.dump_real(t.root())})
        res["parse_error"] = None
        res["tasks"] = info
    except Exception as e:
        res["parse_error"] = type(e).__name__
    return res, decoded


def impl_crash(case):
    it = progs.Interp(case)
    acks = []
    it.on_return = lambda: acks.append(it.crashfile.completed_writes if it.crashfile else 0)
    obs = it.run()
    cf = it.crashfile
    lines, frag = _split(cf.buf)
    res, decoded = _analyse(lines, None, it)
    res.update({"n_lines": len(lines), "frag_len": len(frag), "acked": acks[-1] if acks else 0,
                "crashed": cf.dead, "write_lens": cf.write_lens,
                "frag_is_prefix": cf.interrupted is None and frag == b"" or (cf.interrupted is not None and cf.interrupted.startswith(frag)),
                "frag_has_nl": b"\n" in frag,
                "dest1_prefix": obs["dests"][0][1][:len(lines)] if obs["dests"] else [],
                "dest1_uuid_levels": [[m.get("task_uuid"), m.get("task_level"), m.get("action_status")] for m in obs["raw"]["1"]],
                "line_uuid_levels": [[d.get("task_uuid"), d.get("task_level"), d.get("action_status")] for d in decoded]})
    return res


def model_crash(case):
    at, cut = [d for d in case["pre"][0][1] if d[0] == 9][0][1][1:]
    return None  # built in post_model: needs the observed write lengths


def post_model(cases, obs_list):
    from lib import coqbridge
    exprs = []
    for case, obs in zip(cases, obs_list):
        at, cut = [d for d in case["pre"][0][1] if d[0] == 9][0][1][1:]
        k = 3 * (at // 2) + (at % 2)
        c = 0 if cut is None else min(cut, 10 ** 5)
        lens = [max(0, n - 1) for n in obs["write_lens"]]
        pre = [progs.c_preop(o) for o in case.get("pre", [])]
        prog = progs.c_stmts(case["prog"])
        exprs.append(
            "let lines := map (fun n => repeat 0%%N n) %s in let d := crash_disk lines %d %d in "
            "let j := List.length (complete_lines d) in "
            "(j, List.length (fragment d), acked lines %d, "
            " firstn j (trace_of (fst (run_prog %s %s %s)) 9))"
            % (to_coq([Nat(n) for n in lens]), k, c, k, to_coq(progs.c_config(case)), to_coq(pre), to_coq(prog)))
    vals = coqbridge.eval_in_coq(["Model.Core", "Model.Prog", "Model.Crash"], exprs, shard=20, jobs=12)
    out = []
    for v in vals:
        j, fl, ak, msgs = flat(v, 4)
        canon = progs.rename_uuids({"dests": [[9, [progs.m_msg(m) for m in msgs]]]})["dests"][0][1]
        out.append({"n_lines": j, "frag_len": fl, "canon": canon})
    return out


def project_crash(case, obs):
    # "acked" is judged by the oracle only: the interpreter acknowledges explicit calls, not the
    # implicit __exit__ of with-blocks, so its count is a lower bound of the model's
    return {"n_lines": obs["n_lines"], "frag_len": obs["frag_len"], "canon": obs.get("canon")}


def check_tasks(obs, full_levels):
    """no task complete unless all its messages are present; started actions appear; unfinished have no end.
    full_levels: list of (uuid, level, status) of the whole emission (same uuids as the lines)."""
    if obs.get("bad_line"):
        return obs["bad_line"]
    if obs.get("parse_error"):
        return "the real parser raised %s on the lines on disk" % obs["parse_error"]
    present = obs["line_uuid_levels"]
    total = {}
    for u, l, s in full_levels:
        total[u] = total.get(u, 0) + 1
    have = {}
    for u, l, s in present:
        have[u] = have.get(u, 0) + 1
    ends_present = {(u, tuple(l[:-1])) for u, l, s in present if s in ("succeeded", "failed")}
    for t in obs["tasks"]:
        u = t["uuid"]
        if t["complete"] and have.get(u, 0) != total.get(u, -1):
            return "task %s reported complete with %d of %d messages on disk" % (u[:8], have.get(u, 0), total.get(u, -1))
    started = [(u, tuple(l[:-1]), i) for i, (u, l, s) in enumerate(present) if s == "started"]
    seen_starts = {}
    for t in obs["tasks"]:
        for sid, eid, status in t["actions"]:
            if sid is not None:
                seen_starts[sid] = (eid, status)
    for u, p, i in started:
        if i not in seen_starts:
            return "action started at line %d does not appear in the parsed tree" % i
        eid, status = seen_starts[i]
        if (u, p) not in ends_present and (eid is not None or status != "started"):
            return "unfinished action (start at line %d) is shown as ended" % i
    if sum(len(_ids(t["ids"])) for t in obs["tasks"]) != len(present):
        return "parsed trees hold %d messages, %d lines on disk" % (sum(len(_ids(t["ids"])) for t in obs["tasks"]), len(present))
    return None


def _ids(d):
    if d[0] == "M":
        return [d[1]]
    out = [x for x in (d[2], d[3]) if x is not None]
    for c in d[4]:
        out += _ids(c)
    return out


def oracle_crash(case, obs):
    if obs["acked"] > obs["n_lines"]:
        return "%d logging calls had returned but only %d complete lines are on disk" % (obs["acked"], obs["n_lines"])
    if obs["frag_has_nl"] or not obs["frag_is_prefix"]:
        return "trailing fragment is not a prefix of the interrupted line"
    if obs.get("bad_line"):
        return obs["bad_line"]
    if obs["canon"] != obs["dest1_prefix"]:
        return "lines on disk are not a prefix of the emitted messages"
    return check_tasks(obs, obs["dest1_uuid_levels"])


def nontrivial_crash(case, obs):
    return json.dumps([case["prog"], case["pre"][0][1][-1][1]]) if isinstance(obs, dict) and obs.get("n_lines", 0) >= 2 else None


# ---------------------------------------------------------------- real SIGKILL
def gen_kill(rng, tier):
    n = 6 if tier == "quick" else 80
    out = []
    for i in range(n):
        case = progs.gen_case(rng, n_dests=1, fault=0.0, registry_rate=0.0, p_fault_ser=0.0, p_typed=0.0, depth=3,
                              p_handoff=0.0, p_raise=0.1)
        case["registry"] = []
        case["delay_ms"] = rng.choice([1, 3, 10, 30, 60, 120])
        case["textfile"] = i % 2 == 1
        if case["textfile"]:
            # text that is not ASCII: Latin-1 range, BMP and astral characters, control characters
            case["prog"].insert(0, ["msg", 12, [[33, {"a": 22}], [34, {"a": 23}], [35, {"a": 40}]], None, "log_message"])
        case["tag"] = "%08x" % rng.randrange(1 << 32)
        out.append(case)
    return out


def impl_kill(case):
    import subprocess, time, signal, tempfile, shutil
    d = tempfile.mkdtemp(prefix="kill", dir=os.path.join(ROOT, ".work"))
    try:
        cpath = os.path.join(d, "case.json")
        lpath = os.path.join(d, "log.jsonl")
        json.dump(case, open(cpath, "w"))
        env = dict(os.environ)
        p = subprocess.Popen([PY, "-u", "-m", "lib.crash_child", cpath, lpath, "400"], stdout=subprocess.PIPE,
                             cwd=ROOT, env=env)
        first = p.stdout.readline()
        time.sleep(case["delay_ms"] / 1000.0)
        p.send_signal(signal.SIGKILL)
        rest = p.stdout.read()
        p.wait()
        acks = [int(x) for x in rest.decode().split() if x.isdigit()]
        data = open(lpath, "rb").read() if os.path.exists(lpath) else b""
        lines, frag = _split(data)
        res, decoded = _analyse(lines, None, _FakeInterp())
        acked_bytes = acks[-1] if acks else 0
        complete_bytes = len(data) - len(frag)
        res.update({"n_lines": len(lines), "frag_len": len(frag), "acked_bytes": acked_bytes, "complete_bytes": complete_bytes,
                    "killed": p.returncode == -9, "n_acks": len(acks),
                    "line_uuid_levels": [[x.get("task_uuid"), x.get("task_level"), x.get("action_status")] for x in decoded]})
        res.pop("canon", None)
        return res
    finally:
        shutil.rmtree(d, ignore_errors=True)


class _FakeInterp(object):
    class_rev = {}


def oracle_kill(case, obs):
    if obs["acked_bytes"] > obs["complete_bytes"]:
        return "acknowledged %d bytes of log but only %d bytes of complete lines survived SIGKILL" % (obs["acked_bytes"], obs["complete_bytes"])
    if obs.get("bad_line"):
        return obs["bad_line"]
    if obs.get("parse_error"):
        return "the real parser raised %s on the killed process's log" % obs["parse_error"]
    # completeness: a complete task must have contiguous positions ending in its end message; use the parser-independent count
    present = obs["line_uuid_levels"]
    by = {}
    for u, l, s in present:
        by.setdefault(u, []).append((l, s))
    for t in obs["tasks"]:
        ms = by.get(t["uuid"], [])
        if t["complete"]:
            bad = oracles.placement([{"task_uuid": t["uuid"], "task_level": l, "timestamp": 0.0,
                                      **({"action_type": "x", "action_status": s} if s else {"message_type": "m"})} for l, s in ms])
            if bad:
                return "task %s reported complete but its messages on disk are not a whole task: %s" % (t["uuid"][:8], bad)
    return None


FAMILIES = [
    Family("crashpoints", gen_crash, impl_crash, model_crash, None, oracle_crash, nontrivial_crash,
           imports=["Model.Core", "Model.Prog", "Model.Crash"], project=project_crash, describe=progs.describe,
           shard=20, case_timeout=30),
    Family("sigkill", gen_kill, impl_kill, None, None, oracle_kill,
           lambda case, obs: case["tag"] if isinstance(obs, dict) and obs.get("n_lines", 0) >= 2 else None,
           shard=2, case_timeout=60, workers=6),
]
FAMILIES[0].post_model = post_model


# ---- acknowledged while another thread is busy in a slow destination -------------------------------
def gen_busy(rng, tier):
    return [{"n_before": rng.randrange(0, 3), "n_main": rng.randrange(1, 4), "order": rng.choice(["file_first", "slow_first"])}
            for _ in range(6 if tier == "quick" else 60)]


def impl_busy(case):
    """thread A is stuck inside a slow destination; every logging call the main thread completes meanwhile
    must already be in the file when it returns (a crash right then must not lose it)"""
    import io, threading
    from eliot import log_message, FileDestination, _output
    d = _output.Destinations()
    _output.Logger._destinations = d
    f = io.BytesIO()
    inside, release = threading.Event(), threading.Event()
    a_ident = []

    def slow(message):
        if a_ident and threading.get_ident() == a_ident[0] and message.get("who") == "A":
            inside.set()
            release.wait(20)
    fd = FileDestination(file=f)
    if case["order"] == "file_first":
        d.add(fd, slow)
    else:
        d.add(slow, fd)
    for i in range(case["n_before"]):
        log_message(message_type="before", n=i)

    def a_body():
        a_ident.append(threading.get_ident())
        log_message(message_type="slow", who="A")
    t = threading.Thread(target=a_body, daemon=True)
    t.start()
    ok = inside.wait(20)
    seen = []
    for i in range(case["n_main"]):
        log_message(message_type="acked", n=i)
        lines = f.getvalue().split(b"\n")
        seen.append(sum(1 for ln in lines[:-1] if b'"acked"' in ln))
    release.set()
    t.join(20)
    return {"a_inside": ok, "acked_on_disk_after_each_call": seen, "tail_complete": f.getvalue().endswith(b"\n")}


def oracle_busy(case, obs):
    if not obs["a_inside"]:
        return "thread A never reached the slow destination"
    want = list(range(1, case["n_main"] + 1))
    if obs["acked_on_disk_after_each_call"] != want:
        return "complete lines of acknowledged messages on disk after each returned call: %r, expected %r" % (
            obs["acked_on_disk_after_each_call"], want)
    if not obs["tail_complete"]:
        return "file does not end with a complete line between logging calls"
    return None


FAMILIES.append(Family("ack_while_busy", gen_busy, impl_busy, None, None, oracle_busy,
                       lambda case, obs: json.dumps(case), shard=2, case_timeout=90, workers=6))


# ---- a log file registered (second/later add_destinations) while another thread is logging ---------------------
def gen_late_file(rng, tier):
    out = []
    quick = tier == "quick"
    for i in range(0, 130, 5 if quick else 2):
        for j in range(0, 40, 4 if quick else 1):
            out.append({"segs": [[0, i], [1, j], [0, 2000], [1, 2000]]})
    for _ in range(30 if quick else 600):
        segs, t = [], rng.randrange(2)
        for _ in range(rng.randrange(2, 10)):
            segs.append([t, rng.randrange(1, 50 if t == 0 else 15)])
            t = 1 - t
        out.append({"segs": segs})
    return out


def impl_late_file(case):
    import io
    from eliot import _output, log_message, FileDestination
    from lib.linesched import LineScheduler, Deadlock, segments_to_schedule, instrument
    d = _output.Destinations()
    _output.Logger._destinations = d
    f1, f2 = io.BytesIO(), io.BytesIO()
    d.add(FileDestination(file=f1))
    sched = LineScheduler(files=("eliot/_output.py",))
    instrument(d, sched)
    returned = []

    def a():
        for n in range(1, 4):
            log_message("m", n=n)
            returned.append(n)

    def b():
        d.add(FileDestination(file=f2))
        returned.append("registered")
    try:
        sched.run([a, b], segments_to_schedule([tuple(x) for x in case["segs"]]), fallback="finish_first")
    except Deadlock as e:
        return {"deadlock": str(e)[:300]}
    order = list(returned)
    for n in (10, 11):
        log_message("m", n=n)          # acknowledged after the registration has returned
    ts = list(sched.trace)
    overlap = 0 in ts and 1 in ts and not (max(i for i, t in enumerate(ts) if t == 0) < ts.index(1)
                                           or max(i for i, t in enumerate(ts) if t == 1) < ts.index(0))

    def ns(f):
        data = f.getvalue()
        lines = data.split(b"\n")
        return {"complete": [json.loads(l).get("n") for l in lines[:-1]], "fragment": lines[-1].decode("utf-8", "replace")}
    return {"results": sched.results, "order": order, "f1": ns(f1), "f2": ns(f2), "overlap": overlap}


def oracle_late_file(case, obs):
    if "deadlock" in obs:
        return "dead-lock: %s" % obs["deadlock"]
    for r in obs["results"]:
        if not r or r[0] != "ok":
            return "a call raised: %r" % (r,)
    if obs["f1"]["fragment"] or obs["f2"]["fragment"]:
        return "a file ends in an incomplete line"
    if obs["f1"]["complete"] != [1, 2, 3, 10, 11]:
        return "the first file holds %r; the calls for 1, 2, 3, 10, 11 have all returned" % obs["f1"]["complete"]
    # the later file: everything whose logging call started after the registration returned must be there
    reg = obs["order"].index("registered")
    must = [n for n in obs["order"][reg + 1:] if isinstance(n, int)][1:] + [10, 11]
    got = obs["f2"]["complete"]
    missing = [n for n in must if n not in got]
    if missing:
        return ("the file registered while another thread was logging holds %r; the calls for %r began after the registration "
                "had returned and have all returned" % (got, missing))
    if got != sorted(got) or len(set(got)) != len(got):
        return "the later file holds %r (order/duplicates)" % got
    return None


FAMILIES.append(Family("late_file", gen_late_file, impl_late_file, None, None, oracle_late_file,
                       lambda case, obs: json.dumps(case) if isinstance(obs, dict) and obs.get("overlap") else None,
                       shard=40, case_timeout=30))


# ---- processes forked after eliot was imported log into the same file: their tasks must stay apart for the parser
from props import C06 as _c06

FAMILIES.append(Family("forked", _c06.gen_forked, _c06.impl_forked, None, None, _c06.oracle_forked,
                       lambda case, obs: json.dumps(case), shard=3, case_timeout=60))
