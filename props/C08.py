"""C08 — see properties.jsonl; family: generated logging programs."""
from lib import progs, oracles

ID = "C08"
PROPS_FILE = "Props/C08.v"
TRUSTED = []
ASSUMPTIONS = ["programs are generated from the documented AST (lib/progs.py); every spawned thread is joined"]
RULE = ("logging programs generated from VERIF_SEED (nesting depth <= 4..8, all API styles, fault stream per property); "
        "distinct by program text, non-trivial when at least 3 messages reached the destinations")
LEVEL_TEXT = "Coq theorems about the fan-out loop (each destination offered the message exactly once in order; failures collected; independence from which destinations fail) + correspondence of every destination's offered sequence + the accounting statement (same stream for all destinations, one report per failure of a non-report message, none for reports, report content)."
LEVEL_NOTE = 'Trusted: Coq kernel; hand-written model Model/Core.v + Model/Prog.v tied to /repo by per-run correspondence on generated logging programs (real control flow, real threads for hand-offs); Python harness. Destinations that mutate the message or log re-entrantly are outside the model.'

FAMILIES = [
    progs.program_family("programs", oracles.oracle_c08, 150, 3000, deep=dict(depth=6), **dict(p_globals=0.4, fault=0.8, registry_rate=0.4, p_fault_ser=0.1)),
]
