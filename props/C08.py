"""C08 — see properties.jsonl; family: generated logging programs."""
from lib import progs, oracles

ID = "C08"
PROPS_FILE = "Props/C08.v"
TRUSTED = []
ASSUMPTIONS = ["programs are generated from the documented AST (lib/progs.py); every spawned thread is joined"]
RULE = ("logging programs generated from VERIF_SEED (nesting depth <= 4..8, all API styles, fault stream per property); "
        "distinct by program text, non-trivial when at least 3 messages reached the destinations")
LEVEL_TEXT = "Coq theorems about the fan-out loop (each destination offered the message exactly once in order; failures collected; independence from which destinations fail) + correspondence of every destination's offered sequence + the accounting statement (same stream for all destinations, one report per failure of a non-report message, none for reports, report content)."
LEVEL_NOTE = 'Trusted: Coq kernel; hand-written model Model/Core.v + Model/Prog.v tied to /repo by per-run correspondence on generated logging programs (real control flow, real threads for hand-offs); Python harness. Destinations that mutate the message or log re-entrantly are outside the model.'

FAMILIES = [
    progs.program_family("programs", oracles.oracle_c08, 150, 3000, deep=dict(depth=6), **dict(p_reserved=0.1, p_globals=0.4, fault=0.8, registry_rate=0.4, p_fault_ser=0.1)),
]


# ---- concurrent senders: the accounting must also hold when two threads are inside send at once ----
import json
from lib.framework import Family


def gen_threads(rng, tier):
    out = []
    for i in range(0, 60 if tier == "quick" else 160, 2 if tier == "quick" else 1):
        out.append({"k": 2, "segments": [[0, i], [1, 2000], [0, 2000]], "bad": "always"})
        out.append({"k": 2, "segments": [[1, i], [0, 2000], [1, 2000]], "bad": "first"})
    for _ in range(30 if tier == "quick" else 600):
        k = rng.choice([2, 3])
        out.append({"k": k, "sched": [rng.randrange(k) for _ in range(rng.randrange(0, 300))], "bad": rng.choice(["always", "first", "odd"])})
    return out


def impl_threads(case):
    from lib.linesched import LineScheduler, segments_to_schedule
    from eliot import log_message, _output
    d = _output.Destinations()
    _output.Logger._destinations = d
    good, calls = [], [0]

    def bad(m):
        n = calls[0]
        calls[0] += 1
        fail = case["bad"] == "always" or (case["bad"] == "first" and n < 2) or (case["bad"] == "odd" and n % 2 == 1)
        if fail and m.get("message_type") != "eliot:destination_failure":
            raise RuntimeError("bad destination")
    failed = []

    def bad_rec(m):
        try:
            bad(m)
        except RuntimeError:
            failed.append(dict(m))
            raise
    d.add(lambda m: good.append(dict(m)), bad_rec)
    s = LineScheduler(files=("eliot/_output.py",))

    def make(t):
        return lambda: log_message(message_type="thread%d" % t, n=t)
    sched = case.get("sched")
    if sched is None:
        sched = segments_to_schedule([tuple(x) for x in case["segments"]])
    s.run([make(t) for t in range(case["k"])], sched)
    from lib.progs import expected_render
    return {"good_types": [m.get("message_type") for m in good],
            "n_failed": len(failed), "failed_renders": sorted(expected_render(m) for m in failed),
            "report_renders": sorted(m.get("message") for m in good if m.get("message_type") == "eliot:destination_failure"),
            "thread_errors": [r for r in s.results if r and r[0] != "ok"], "steps": len(s.trace)}


def oracle_threads(case, obs):
    if obs["thread_errors"]:
        return "a logging call raised in a thread: %r" % obs["thread_errors"]
    want = sorted("thread%d" % t for t in range(case["k"]))
    got = sorted(t for t in obs["good_types"] if t != "eliot:destination_failure")
    if got != want:
        return "healthy destination received %r, expected each message once: %r" % (got, want)
    if obs["report_renders"] != obs["failed_renders"]:
        return "%d destination failures but %d reports (or reports about the wrong messages)" % (obs["n_failed"], len(obs["report_renders"]))
    return None


FAMILIES.append(Family("threads", gen_threads, impl_threads, None, None, oracle_threads,
                       lambda case, obs: json.dumps(case) if isinstance(obs, dict) and obs.get("n_failed", 0) >= 2 else None,
                       shard=30, case_timeout=30, describe=lambda c: "threads:%d:%s" % (c["k"], c["bad"])))


# ---- destinations added while messages are already buffered / actions are open (op-level scripts) ----
from lib import oplists


def gen_late(rng, tier):
    return [oplists.gen_script(rng, late_add=True, n_ops=rng.randrange(6, 20), fault=0.9) for _ in range(60 if tier == "quick" else 1000)]


def oracle_late(case, obs):
    bad = oracles.note_failures(obs, ("logging_raised", "foreign_exception", "render_mismatch"))
    if bad:
        return bad
    ids = sorted(obs["raw"])
    if not ids:
        return None
    ref = obs["dests"][0][1]
    for did, ms in obs["dests"][1:]:
        if ms != ref:
            return "destinations registered by the same add were offered different sequences"
    raw = obs["raw"][ids[0]]
    n_reports = sum(1 for m in raw if m.get("message_type") == "eliot:destination_failure")
    n_failures = 0
    for i in ids:
        for j, m in enumerate(obs["raw"][i]):
            if obs["fails"][i][j] and m.get("message_type") != "eliot:destination_failure":
                n_failures += 1
    if n_reports != n_failures:
        return "%d destination failures on ordinary messages (incl. replayed buffered ones) but %d reports" % (n_failures, n_reports)
    return None


FAMILIES.append(Family("late_add", gen_late, oplists.run_case, oplists.model_expr, oplists.model_obs, oracle_late,
                       lambda case, obs: json.dumps(case["ops"]) if isinstance(obs, dict) and any(any(f) for f in obs.get("fails", {}).values()) else None,
                       imports=["Model.Core", "Model.Prog"], project=oplists.project, describe=oplists.describe,
                       shard=30, coq_shard=60))


# ---- registration histories (add / remove / log) with value-equal destination objects: every registration is its own ----
from props import C12 as _c12


def gen_registration(rng, tier):
    out = []
    for k in range(70 if tier == "quick" else 1200):
        out.append({"hist": _c12._gen_history(rng, rng.randrange(4, 50), equal_dests=True, fault=0.3), "equal_dests": True})
    return out


FAMILIES.append(Family("registration", gen_registration, _c12.impl_histories, _c12.model_histories, _c12.model_obs_histories,
                       _c12.oracle_histories, _c12.nontrivial_histories, imports=["Model.Core", "Model.Prog", "Model.Handover"],
                       project=_c12.project_histories, shrink=_c12.shrink_histories, describe=_c12.describe_histories,
                       shard=24, coq_shard=24, case_timeout=30))


def gen_raw_registration(rng, tier):
    return _c12.gen_raw_histories(rng, tier, equal_every=2)


# Logger.write(dict) from one re-used dictionary, also before the first registration (statement only, no model evaluation)
FAMILIES.append(Family("raw_registration", gen_raw_registration, _c12.impl_histories, None, None, _c12.oracle_histories,
                       _c12.nontrivial_histories, describe=_c12.describe_histories, shard=24, case_timeout=30))
