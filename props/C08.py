"""C08 — see properties.jsonl; family: generated logging programs."""
from lib import progs, oracles

ID = "C08"
PROPS_FILE = "Props/C08.v"
TRUSTED = []
ASSUMPTIONS = ["programs are generated from the documented AST (lib/progs.py); every spawned thread is joined"]
RULE = ("logging programs generated from VERIF_SEED (nesting depth <= 4..8, all API styles, fault stream per property); "
        "distinct by program text, non-trivial when at least 3 messages reached the destinations")
LEVEL_TEXT = "Coq theorems about the fan-out loop (each destination offered the message exactly once in order; failures collected; independence from which destinations fail) + correspondence of every destination's offered sequence + the accounting statement (same stream for all destinations, one report per failure of a non-report message, none for reports, report content)."
LEVEL_NOTE = 'Trusted: Coq kernel; hand-written model Model/Core.v + Model/Prog.v tied to /repo by per-run correspondence on generated logging programs (real control flow, real threads for hand-offs); Python harness. Destinations that mutate the message or log re-entrantly are outside the model.'

FAMILIES = [
    progs.program_family("programs", oracles.oracle_c08, 150, 3000, deep=dict(depth=6), **dict(p_reserved=0.1, p_globals=0.4, fault=0.8, registry_rate=0.4, p_fault_ser=0.1, p_raw=0.1)),
]


# ---- concurrent senders: the accounting must also hold when two threads are inside send at once ----
import json
from lib.framework import Family


def gen_threads(rng, tier):
    out = []
    for i in range(0, 60 if tier == "quick" else 160, 2 if tier == "quick" else 1):
        out.append({"k": 2, "segments": [[0, i], [1, 2000], [0, 2000]], "bad": "always"})
        out.append({"k": 2, "segments": [[1, i], [0, 2000], [1, 2000]], "bad": "first"})
    for _ in range(30 if tier == "quick" else 600):
        k = rng.choice([2, 3])
        out.append({"k": k, "sched": [rng.randrange(k) for _ in range(rng.randrange(0, 300))], "bad": rng.choice(["always", "first", "odd"])})
    return out


def impl_threads(case):
    from lib.linesched import LineScheduler, segments_to_schedule
    from eliot import log_message, _output
    d = _output.Destinations()
    _output.Logger._destinations = d
    good, calls = [], [0]

    def bad(m):
        n = calls[0]
        calls[0] += 1
        fail = case["bad"] == "always" or (case["bad"] == "first" and n < 2) or (case["bad"] == "odd" and n % 2 == 1)
        if fail and m.get("message_type") != "eliot:destination_failure":
            raise RuntimeError("bad destination")
    failed = []

    def bad_rec(m):
        try:
            bad(m)
        except RuntimeError:
            failed.append(dict(m))
            raise
    d.add(lambda m: good.append(dict(m)), bad_rec)
    s = LineScheduler(files=("eliot/_output.py",))

    def make(t):
        return lambda: log_message(message_type="thread%d" % t, n=t)
    sched = case.get("sched")
    if sched is None:
        sched = segments_to_schedule([tuple(x) for x in case["segments"]])
    s.run([make(t) for t in range(case["k"])], sched)
    from lib.progs import expected_render
    return {"good_types": [m.get("message_type") for m in good],
            "n_failed": len(failed), "failed_renders": sorted(expected_render(m) for m in failed),
            "report_renders": sorted(m.get("message") for m in good if m.get("message_type") == "eliot:destination_failure"),
            "thread_errors": [r for r in s.results if r and r[0] != "ok"], "steps": len(s.trace)}


def oracle_threads(case, obs):
    if obs["thread_errors"]:
        return "a logging call raised in a thread: %r" % obs["thread_errors"]
    want = sorted("thread%d" % t for t in range(case["k"]))
    got = sorted(t for t in obs["good_types"] if t != "eliot:destination_failure")
    if got != want:
        return "healthy destination received %r, expected each message once: %r" % (got, want)
    if obs["report_renders"] != obs["failed_renders"]:
        return "%d destination failures but %d reports (or reports about the wrong messages)" % (obs["n_failed"], len(obs["report_renders"]))
    return None


FAMILIES.append(Family("threads", gen_threads, impl_threads, None, None, oracle_threads,
                       lambda case, obs: json.dumps(case) if isinstance(obs, dict) and obs.get("n_failed", 0) >= 2 else None,
                       shard=30, case_timeout=30, describe=lambda c: "threads:%d:%s" % (c["k"], c["bad"])))


# ---- destinations added while messages are already buffered / actions are open (op-level scripts) ----
from lib import oplists


def gen_late(rng, tier):
    return [oplists.gen_script(rng, late_add=True, n_ops=rng.randrange(6, 20), fault=0.9) for _ in range(60 if tier == "quick" else 1000)]


def oracle_late(case, obs):
    bad = oracles.note_failures(obs, ("logging_raised", "foreign_exception", "render_mismatch"))
    if bad:
        return bad
    ids = sorted(obs["raw"])
    if not ids:
        return None
    ref = obs["dests"][0][1]
    for did, ms in obs["dests"][1:]:
        if ms != ref:
            return "destinations registered by the same add were offered different sequences"
    raw = obs["raw"][ids[0]]
    n_reports = sum(1 for m in raw if m.get("message_type") == "eliot:destination_failure")
    n_failures = 0
    for i in ids:
        for j, m in enumerate(obs["raw"][i]):
            if obs["fails"][i][j] and m.get("message_type") != "eliot:destination_failure":
                n_failures += 1
    if n_reports != n_failures:
        return "%d destination failures on ordinary messages (incl. replayed buffered ones) but %d reports" % (n_failures, n_reports)
    return None


FAMILIES.append(Family("late_add", gen_late, oplists.run_case, oplists.model_expr, oplists.model_obs, oracle_late,
                       lambda case, obs: json.dumps(case["ops"]) if isinstance(obs, dict) and any(any(f) for f in obs.get("fails", {}).values()) else None,
                       imports=["Model.Core", "Model.Prog"], project=oplists.project, describe=oplists.describe,
                       shard=30, coq_shard=60))


# ---- registration histories (add / remove / log) with value-equal destination objects: every registration is its own ----
from props import C12 as _c12


def gen_registration(rng, tier):
    out = []
    for k in range(70 if tier == "quick" else 1200):
        out.append({"hist": _c12._gen_history(rng, rng.randrange(4, 50), equal_dests=True, fault=0.3), "equal_dests": True})
    return out


FAMILIES.append(Family("registration", gen_registration, _c12.impl_histories, _c12.model_histories, _c12.model_obs_histories,
                       _c12.oracle_histories, _c12.nontrivial_histories, imports=["Model.Core", "Model.Prog", "Model.Handover"],
                       project=_c12.project_histories, shrink=_c12.shrink_histories, describe=_c12.describe_histories,
                       shard=24, coq_shard=24, case_timeout=30))


def gen_raw_registration(rng, tier):
    return _c12.gen_raw_histories(rng, tier, equal_every=2)


# Logger.write(dict) from one re-used dictionary, also before the first registration (statement only, no model evaluation)
FAMILIES.append(Family("raw_registration", gen_raw_registration, _c12.impl_histories, None, None, _c12.oracle_histories,
                       _c12.nontrivial_histories, describe=_c12.describe_histories, shard=24, case_timeout=30))


# ---- an enclosing action that belongs to ANOTHER logger (a MemoryLogger) while messages go through the default Logger ----
def gen_foreign(rng, tier):
    out = []
    for _ in range(60 if tier == "quick" else 1000):
        ops = []
        for _ in range(rng.randrange(1, 7)):
            r = rng.random()
            if r < 0.35:
                ops.append(["raw", rng.randrange(100)])                       # Logger().write({...})
            elif r < 0.55:
                ops.append(["raw_badser", rng.randrange(100)])                # Logger().write(dict, serializer that raises)
            elif r < 0.75:
                ops.append(["child", rng.choice(["ok", "ok", "bad_start", "bad_end"]), rng.randrange(100)])   # typed child action on the default logger
            else:
                ops.append(["log", rng.randrange(100)])                       # log_message: belongs to the enclosing action's logger
        masks = [[rng.random() < 0.4 for _ in range(rng.randrange(1, 10))] for _ in range(rng.choice([1, 2]))]
        out.append({"ops": ops, "masks": masks, "outer": rng.choice(["with", "context", "none"])})
    return out


def impl_foreign(case):
    import eliot
    from eliot import _output, MemoryLogger, Logger, start_action, log_message, MessageType, ActionType, Field

    class Bad(Exception):
        pass

    def boom(v):
        raise Bad("cannot serialize")
    d = _output.Destinations()
    _output.Logger._destinations = d
    recs = []

    def mk(mask):
        got, fails = [], []

        def dest(m):
            n = len(got)
            got.append(dict(m))
            bad = mask[n % len(mask)] and m.get("message_type") != "eliot:destination_failure"
            fails.append(bool(bad))
            if bad:
                raise ValueError("destination failed")
        return dest, got, fails
    for mask in case["masks"]:
        dest, got, fails = mk(mask)
        recs.append((got, fails))
        d.add(dest)
    ml = MemoryLogger()
    BADMSG = MessageType("foreign:bad", [Field("x", boom, "")], "")
    OKTYPE = ActionType("foreign:child", [Field("a", lambda v: v, "")], [Field("b", lambda v: v, "")], "")
    BADSTART = ActionType("foreign:child_bs", [Field("a", boom, "")], [Field("b", lambda v: v, "")], "")
    BADEND = ActionType("foreign:child_be", [Field("a", lambda v: v, "")], [Field("b", boom, "")], "")
    raised = []

    def body():
        for o in case["ops"]:
            try:
                if o[0] == "raw":
                    Logger().write({"message_type": "foreign:raw", "n": o[1]})
                elif o[0] == "raw_badser":
                    Logger().write({"message_type": "foreign:bad", "x": o[1]}, BADMSG._serializer)
                elif o[0] == "child":
                    T = {"ok": OKTYPE, "bad_start": BADSTART, "bad_end": BADEND}[o[1]]
                    with T(a=o[2]) as act:
                        act.add_success_fields(b=o[2])
                else:
                    log_message("foreign:inner", n=o[1])
            except BaseException as e:
                raised.append("%s:%s" % (o[0], type(e).__name__))
    if case["outer"] == "with":
        with start_action(ml, "foreign:outer"):
            body()
    elif case["outer"] == "context":
        a = start_action(ml, "foreign:outer")
        with a.context():
            body()
        a.finish()
    else:
        body()
    return {"raised": raised,
            "dests": [[[m.get("message_type") or m.get("action_type"), m.get("action_status")] for m in got] for got, _ in recs],
            "fails": [f for _, f in recs],
            "memory": [[m.get("message_type") or m.get("action_type"), m.get("action_status")] for m in ml.messages]}


def oracle_foreign(case, obs):
    if obs["raised"]:
        return "a logging call raised: %r" % obs["raised"]
    outer = case["outer"] != "none"
    # what the default Logger is asked to write, in order (failed serializations are replaced by their two reports)
    want = []
    for o in case["ops"]:
        if o[0] == "raw":
            want.append(["foreign:raw", None])
        elif o[0] == "raw_badser":
            want += [["eliot:traceback", None], ["eliot:serialization_failure", None]]
        elif o[0] == "child":
            t = {"ok": "foreign:child", "bad_start": "foreign:child_bs", "bad_end": "foreign:child_be"}[o[1]]
            want += [[t, "started"]] if o[1] != "bad_start" else [["eliot:traceback", None], ["eliot:serialization_failure", None]]
            want += [[t, "succeeded"]] if o[1] != "bad_end" else [["eliot:traceback", None], ["eliot:serialization_failure", None]]
        elif not outer:
            want.append(["foreign:inner", None])
    mem_want = ([["foreign:outer", "started"]] + [["foreign:inner", None] for o in case["ops"] if o[0] == "log"] + [["foreign:outer", "succeeded"]]) if outer else []
    # tracebacks/serialization failures written while the enclosing action is current belong to the Logger whose write failed
    for i, (got, fails) in enumerate(zip(obs["dests"], obs["fails"])):
        plain = [m for m in got if m[0] != "eliot:destination_failure"]
        if plain != want:
            return ("destination %d was offered %r; the default Logger was asked to write (reports of failed serializations "
                    "included) %r" % (i, plain, want))
    n_fail = sum(1 for fs in obs["fails"] for f in fs if f)
    for i, got in enumerate(obs["dests"]):
        n_rep = sum(1 for m in got if m[0] == "eliot:destination_failure")
        if n_rep != n_fail:
            return "%d destination failures but destination %d was offered %d eliot:destination_failure reports" % (n_fail, i, n_rep)
    if obs["memory"] != mem_want:
        return "the enclosing action's MemoryLogger holds %r, expected only its own messages %r" % (obs["memory"], mem_want)
    return None


FAMILIES.append(Family("foreign_logger", gen_foreign, impl_foreign, None, None, oracle_foreign,
                       lambda case, obs: json.dumps(case) if case["outer"] != "none" else None, shard=30, case_timeout=30))


# two raw Logger.write() messages (they carry no task_uuid / task_level) that both fail at a destination: each report
# renders its own message
_RAW2 = {"classes": [], "registry": [],
         "pre": [["add", [[1, ["never"], {"id": 90, "cls": 2, "text": 100, "sr": False, "falsy": False}],
                          [2, ["not_reports"], {"id": 91, "cls": 9, "text": 101, "sr": False, "falsy": False}]]]],
         "prog": [["rawwrite", 12, [[33, {"i": 1}], [5, {"t": 12}]], None],
                  ["rawwrite", 13, [[34, {"i": 2}], [5, {"t": 13}]], None],
                  ["act", 1, "with", False, 10, [[19, {"i": 1}]], None, [[19, {"i": 1}]],
                   [["rawwrite", 12, [[35, {"i": 3}], [5, {"t": 12}]], None]], "start_action"]]}
for _f in FAMILIES:
    if _f.name == "programs":
        _f.corpus = list(_f.corpus or []) + [_RAW2]
