"""C07 — see properties.jsonl; family: generated logging programs."""
from lib import progs, oracles

ID = "C07"
PROPS_FILE = "Props/C07.v"
TRUSTED = ["orjson raises an Exception subclass for unencodable values"]
ASSUMPTIONS = ["programs are generated from the documented AST (lib/progs.py); every spawned thread is joined"]
RULE = ("logging programs generated from VERIF_SEED (nesting depth <= 4..8, all API styles, fault stream per property); "
        "distinct by program text, non-trivial when at least 3 messages reached the destinations")
LEVEL_TEXT = "Coq theorems on the model's fault containment + correspondence under the full fault stream (hostile values, failing serializers, extractors, destinations incl. a real FileDestination) + the statement: no logging call raised, application exceptions propagate as the same object, outcomes unchanged."
LEVEL_NOTE = "Trusted: Coq kernel; hand-written model Model/Core.v + Model/Prog.v tied to /repo by per-run correspondence on generated logging programs (real control flow, real threads for hand-offs); Python harness. 'Never raises' is relative to the model's set of fallible primitives (destination call, field serializer, extractor, str()/repr() of user objects, JSON encoding). Destinations raising non-Exception BaseExceptions are outside the property's quantifier."

FAMILIES = [
    progs.program_family("programs", oracles.oracle_c07, 150, 3000, deep=dict(depth=6), **dict(p_reserved=0.15, p_globals=0.3, fault=0.7, registry_rate=0.9, p_fault_ser=0.3, p_hostile=0.15, file_dest=True, p_raw=0.05, sr=0.3, p_tb=0.1, p_reenter=0.15)),
]


# ---- a logging call racing add_global_fields in another thread (line-granular schedules) ----
import json
from lib.framework import Family


def gen_race(rng, tier):
    out = []
    for i in range(0, 50 if tier == "quick" else 120, 2 if tier == "quick" else 1):
        out.append({"segments": [[0, i], [1, 2000], [0, 2000]], "nglobals": 1 + i % 3})
        out.append({"segments": [[1, i], [0, 2000], [1, 2000]], "nglobals": 1 + i % 3})
    for _ in range(20 if tier == "quick" else 300):
        out.append({"sched": [rng.randrange(2) for _ in range(rng.randrange(0, 200))], "nglobals": rng.randrange(1, 4)})
    return out


def impl_race(case):
    from lib.linesched import LineScheduler, segments_to_schedule, instrument
    from eliot import log_message, start_action, _output
    d = _output.Destinations()
    _output.Logger._destinations = d
    got = []
    d.add(lambda m: got.append(dict(m)))
    d.addGlobalFields(g0=0)
    s = LineScheduler(files=("eliot/_output.py",))
    instrument(d, s)

    def a():
        with start_action(action_type="a"):
            log_message(message_type="m", n=1)

    def b():
        for k in range(case["nglobals"]):
            d.addGlobalFields(**{"extra%d" % k: k})
    sched = case.get("sched")
    if sched is None:
        sched = segments_to_schedule([tuple(x) for x in case["segments"]])
    s.run([a, b], sched)
    return {"results": s.results, "n": len(got), "types": [m.get("message_type") or m.get("action_status") for m in got]}


def oracle_race(case, obs):
    for t, r in enumerate(obs["results"]):
        if not r or r[0] != "ok":
            return "%s raised %r while the other thread was %s" % (
                ["the logging thread", "add_global_fields"][t], r[1:] if r else None, ["adding global fields", "logging"][t])
    if obs["types"] != ["started", "m", "succeeded"]:
        return "messages delivered: %r" % (obs["types"],)
    return None


FAMILIES.append(Family("globals_race", gen_race, impl_race, None, None, oracle_race,
                       lambda case, obs: json.dumps(case), shard=30, case_timeout=30))


# fixed feature programs (lib/progs.py CORPUS_FEATURES) run first under every seed
for _f in FAMILIES:
    if _f.name in ("programs", "roundtrip"):
        _f.corpus = list(_f.corpus or []) + [dict(c) for c in progs.CORPUS_FEATURES]


# ---- decorated generators closed / thrown into while suspended inside an action (generator model of C15): nothing raised
# into the application, nothing swallowed
from props import C15 as _c15
from lib.framework import Family


def gen_generators(rng, tier):
    cases = [c for c in _c15.gen_scripts(rng, tier)
             if any(s[0] == "resume" and s[2][0] in ("close", "throw", "throw_ge") for s in c["script"])]
    return cases[:80 if tier == "quick" else 2500]


FAMILIES.append(Family("generators", gen_generators, _c15.impl_scripts, _c15.model_scripts, _c15.model_obs_scripts,
                       _c15.oracle_scripts, _c15.nontrivial_scripts, imports=["Model.Generators"],
                       project=_c15.project_scripts, shrink=_c15.shrink_scripts, describe=_c15.describe_scripts,
                       shard=100, coq_shard=30))
