"""C07 — see properties.jsonl; family: generated logging programs."""
from lib import progs, oracles

ID = "C07"
PROPS_FILE = "Props/C07.v"
TRUSTED = ["orjson raises an Exception subclass for unencodable values"]
ASSUMPTIONS = ["programs are generated from the documented AST (lib/progs.py); every spawned thread is joined"]
RULE = ("logging programs generated from VERIF_SEED (nesting depth <= 4..8, all API styles, fault stream per property); "
        "distinct by program text, non-trivial when at least 3 messages reached the destinations")
LEVEL_TEXT = "Coq theorems on the model's fault containment + correspondence under the full fault stream (hostile values, failing serializers, extractors, destinations incl. a real FileDestination) + the statement: no logging call raised, application exceptions propagate as the same object, outcomes unchanged."
LEVEL_NOTE = "Trusted: Coq kernel; hand-written model Model/Core.v + Model/Prog.v tied to /repo by per-run correspondence on generated logging programs (real control flow, real threads for hand-offs); Python harness. 'Never raises' is relative to the model's set of fallible primitives (destination call, field serializer, extractor, str()/repr() of user objects, JSON encoding). Destinations raising non-Exception BaseExceptions are outside the property's quantifier."

FAMILIES = [
    progs.program_family("programs", oracles.oracle_c07, 150, 3000, deep=dict(depth=6), **dict(p_reserved=0.15, p_globals=0.3, fault=0.7, registry_rate=0.9, p_fault_ser=0.3, p_hostile=0.15, file_dest=True, p_raw=0.05, sr=0.3, p_tb=0.1)),
]
