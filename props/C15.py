"""C15 — decorated generators keep their own action context and stay transparent.

Family "scripts": table-driven generator bodies realised by ONE generic real
Python generator function (real ``yield``, real ``Action.__enter__/__exit__``
spanning yields, real nested decorated generators resumed by hand from inside
a segment), decorated with the real ``eliot_friendly_generator_function`` and
driven by generated scripts of next/send/throw/close from a driver that enters
and leaves its own actions between resumptions and alternates between several
generators.  The same script is also run on the undecorated twin.
"""
from lib.framework import Family
from lib.coqbridge import Nat, C, Some, to_coq

ID = "C15"
PROPS_FILE = "Props/C15.v"
TRUSTED = [
    "contextvars contract: ContextVar.set/reset act on the current Context, copy_context() copies values, "
    "Context.run makes the context current for the call and restores the previous one, a token is only valid in its own Context",
    "Python generator protocol (send/throw/close on not-started, suspended, finished and running generators) as modelled in Model/Generators.v",
    "eliot.twisted.inline_callbacks (Twisted not installed) is eliot_friendly_generator_function composed with "
    "twisted's inlineCallbacks: covered only through the wrapper theorems, not run",
]
ASSUMPTIONS = [
    "generator bodies only __exit__ actions they entered themselves, each action object is entered once "
    "(the model refuses a foreign/used token with TokenError like ContextVar.reset does; the harness does not generate such bodies)",
    "bodies do not raise StopIteration themselves and the driver does not throw StopIteration (PEP 479 conversion is not modelled)",
]
RULE = ("scripts: 1-3 table-driven generators (<= 7 suspension points each, handlers for send/throw/GeneratorExit, actions spanning yields, "
        "nested resumption of decorated generators incl. self) x driver scripts of 4-16 steps (enter/exit own actions, probe, create, "
        "next/send/throw/close/throw(GeneratorExit)) drawn from the seed; non-trivial = a generator probed its context after the driver's "
        "context changed since that generator's first resumption, or a value/exception crossed the wrapper")

MAX_ENTRIES = 7


# ------------------------------------------------------------------ generation
class _G(object):
    def __init__(self, rng, ngen):
        self.rng = rng
        self.ngen = ngen
        self.handle = 0
        self.value = 10
        self.exn = 1000

    def fresh_handle(self):
        self.handle += 1
        return self.handle

    def fresh_value(self):
        self.value += 1
        return self.value

    def fresh_exn(self):
        self.exn += 1
        return self.exn

    def gen_input(self, nested=False):
        r = self.rng.random()
        if r < 0.42:
            return ["next"]
        if r < 0.67:
            # values >= 9000 are delivered as exception INSTANCES used as plain data (errors passed around
            # as values): send() must deliver them, not raise them
            return ["send", self.rng.choice([None, self.fresh_value(), self.fresh_value(), 9000 + self.rng.randrange(50)])]
        if r < 0.82:
            return ["throw", self.fresh_exn()]
        if r < 0.96:
            return ["close"]
        return ["throw_ge"]

    def steps(self, entered, first=False):
        rng = self.rng
        out = []
        n = rng.choice([0, 1, 1, 2, 2, 3, 4])
        if first and rng.random() < 0.7:
            out.append(["probe"])
        for _ in range(n):
            r = rng.random()
            if r < 0.3:
                h = self.fresh_handle()
                entered.append(h)
                out.append(["enter", h])
            elif r < 0.5 and entered:
                h = entered.pop() if rng.random() < 0.7 else entered.pop(rng.randrange(len(entered)))
                out.append(["exit", h])
            elif r < 0.85:
                out.append(["probe"])
            elif self.ngen >= 1:
                out.append(["resume", rng.randrange(self.ngen), self.gen_input(nested=True)])
        return out

    def table(self):
        entries = []

        def build(entered, first):
            idx = len(entries)
            entries.append(None)
            segs = []
            for kind in ("send", "throw", "close"):
                ent = list(entered)
                st = self.steps(ent, first=(first and kind == "send"))
                if kind != "send" and ent and self.rng.random() < 0.6:
                    # like leaving `with` blocks on the way out
                    while ent:
                        st.append(["exit", ent.pop()])
                        if self.rng.random() < 0.3:
                            break
                r = self.rng.random()
                room = len(entries) < MAX_ENTRIES
                if kind == "send":
                    if room and r < 0.72:
                        end = "yield"
                    elif r < 0.9:
                        end = "return"
                    else:
                        end = "raise_new"
                elif kind == "throw":
                    if r < 0.5:
                        end = "raise_input"
                    elif room and r < 0.72:
                        end = "yield"
                    elif r < 0.86:
                        end = "return"
                    else:
                        end = "raise_new"
                else:
                    if r < 0.6:
                        end = "raise_input"
                    elif r < 0.88:
                        end = "return"
                    elif room and r < 0.95:
                        end = "yield"      # illegal for close(): RuntimeError
                    else:
                        end = "raise_new"
                if end == "yield":
                    v = ["input"] if (kind == "send" and self.rng.random() < 0.3) else ["const", self.fresh_value()]
                    nxt = build(ent, False)
                    segs.append({"steps": st, "end": ["yield", v, nxt]})
                elif end == "return":
                    v = ["input"] if (kind == "send" and self.rng.random() < 0.4) else \
                        ["const", self.rng.choice([None, self.fresh_value()])]
                    segs.append({"steps": st, "end": ["return", v]})
                elif end == "raise_input":
                    segs.append({"steps": st, "end": ["raise", ["input"]]})
                else:
                    segs.append({"steps": st, "end": ["raise", ["new", self.fresh_exn()]]})
            entries[idx] = segs
            return idx

        build([], True)
        return entries

    def script(self):
        rng = self.rng
        n = rng.randrange(4, 17)
        created = set()
        entered = []
        out = []
        # a script shape that matters: create inside/outside an action, start elsewhere
        for _ in range(n):
            r = rng.random()
            if r < 0.14:
                h = self.fresh_handle()
                entered.append(h)
                out.append(["enter", h])
            elif r < 0.24 and entered:
                h = entered.pop() if rng.random() < 0.6 else entered.pop(rng.randrange(len(entered)))
                out.append(["exit", h])
            elif r < 0.32:
                out.append(["probe"])
            elif r < 0.42:
                g = rng.randrange(self.ngen)
                if g not in created:
                    created.add(g)
                    out.append(["create", g])
                else:
                    out.append(["probe"])
            else:
                g = rng.randrange(self.ngen)
                if g not in created and rng.random() < 0.8:
                    created.add(g)
                    out.append(["create", g])
                    if rng.random() < 0.5:
                        h = self.fresh_handle()
                        entered.append(h)
                        out.append(["enter", h])
                    elif entered and rng.random() < 0.5:
                        out.append(["exit", entered.pop()])
                out.append(["resume", g, self.gen_input()])
        return out


def gen_scripts(rng, tier):
    n = 300 if tier == "quick" else 10000
    cases = []
    for _ in range(n):
        ngen = rng.choice([1, 2, 2, 3])
        g = _G(rng, ngen)
        tables = [g.table() for _ in range(ngen)]
        cases.append({"tables": tables, "script": g.script(), "foreign": rng.random() < 0.35})
    return cases


def _seg(steps, end):
    return {"steps": steps, "end": end}


_RI = _seg([], ["raise", ["input"]])

CORPUS = [
    # thrown into, caught, yields again, then resumed with send()/next(): the sent value must arrive, the return value too
    {"tables": [[[_seg([], ["yield", ["const", 1], 1]), _RI, _RI],
                 [_seg([], ["return", ["input"]]), _seg([], ["yield", ["const", 2], 2]), _RI],
                 [_seg([], ["yield", ["input"], 1]), _RI, _RI]]],
     "script": [["resume", 0, ["next"]], ["resume", 0, ["throw", 1001]], ["resume", 0, ["send", 7]], ["resume", 0, ["next"]],
                ["resume", 0, ["throw", 1002]], ["resume", 0, ["send", 8]], ["resume", 0, ["send", 9]]]},
    # F1: x = yield 1; return x
    {"tables": [[[_seg([], ["yield", ["const", 1], 1]), _RI, _RI],
                 [_seg([], ["return", ["input"]]), _RI, _RI]]],
     "script": [["create", 0], ["resume", 0, ["next"]], ["resume", 0, ["send", 5]]]},
    # created outside, started inside a driver action; an action spans the yield; driver leaves its action in between
    {"tables": [[[_seg([["probe"], ["enter", 10], ["probe"]], ["yield", ["const", 1], 1]), _RI, _RI],
                 [_seg([["probe"], ["exit", 10], ["probe"]], ["return", ["const", 2]]),
                  _seg([["exit", 10]], ["raise", ["input"]]), _seg([["exit", 10]], ["raise", ["input"]])]]],
     "script": [["create", 0], ["enter", 1], ["resume", 0, ["next"]], ["probe"], ["exit", 1], ["probe"],
                ["resume", 0, ["next"]], ["probe"]]},
    # thrown exception is caught and answered by a yield; then close()
    {"tables": [[[_seg([], ["yield", ["const", 1], 1]), _RI, _RI],
                 [_seg([], ["return", ["const", None]]), _seg([["probe"]], ["yield", ["const", 2], 2]), _RI],
                 [_seg([], ["return", ["const", 3]]), _RI, _seg([["probe"]], ["return", ["const", 4]])]]],
     "script": [["resume", 0, ["next"]], ["resume", 0, ["throw", 1001]], ["enter", 1], ["resume", 0, ["close"]],
                ["resume", 0, ["next"]]]},
    # nested decorated generator started from inside another one's action; self-resumption
    {"tables": [[[_seg([["enter", 10], ["resume", 1, ["next"]], ["probe"], ["resume", 0, ["next"]]],
                       ["yield", ["const", 1], 1]), _RI, _RI],
                 [_seg([["resume", 1, ["send", 7]], ["probe"]], ["return", ["const", 9]]), _RI, _RI]],
                [[_seg([["probe"], ["enter", 20]], ["yield", ["const", 5], 1]), _RI, _RI],
                 [_seg([["probe"]], ["return", ["input"]]), _RI, _RI]]],
     "script": [["enter", 1], ["resume", 0, ["next"]], ["exit", 1], ["resume", 0, ["next"]], ["probe"]]},
    # protocol corners: send non-None / throw / close to a generator that has not started, close ignored
    {"tables": [[[_seg([["probe"]], ["yield", ["const", 1], 1]), _RI, _RI],
                 [_seg([], ["return", ["const", 2]]), _RI, _seg([], ["yield", ["const", 3], 2])],
                 [_seg([], ["return", ["const", 4]]), _RI, _RI]],
                [[_seg([["probe"]], ["return", ["const", 6]]), _RI, _RI]]],
     "script": [["resume", 0, ["send", 3]], ["resume", 1, ["throw", 1001]], ["resume", 1, ["next"]],
                ["resume", 0, ["next"]], ["resume", 0, ["close"]], ["resume", 0, ["throw_ge"]], ["resume", 0, ["close"]]]},
]


# -------------------------------------------------------------- implementation
def impl_scripts(case):
    import contextvars
    import eliot
    from eliot import _output, start_action, log_message, current_action
    from eliot._generators import eliot_friendly_generator_function

    class UserExc(Exception):
        def __init__(self, n):
            Exception.__init__(self, n)
            self.n = n

    class Env(object):
        pass

    class ExcValue(Exception):
        """an exception instance that travels as an ordinary value"""
        def __init__(self, n):
            Exception.__init__(self, n)
            self.n = n

    def as_value(v):
        return ExcValue(v) if isinstance(v, int) and not isinstance(v, bool) and v >= 9000 else v

    def norm(x):
        return x.n if isinstance(x, ExcValue) else x

    def run(decorated):
        env = Env()
        env.msgs = []
        dests = _output.Destinations()
        _output.Logger._destinations = dests
        dests.add(env.msgs.append)
        env.events = []
        env.actions = {}
        env.handle_of = {}
        env.thrown = {}
        env.identity = []
        env.gens = {}
        env.probes = 0
        env.nge = 0
        env.done = False
        tables = case["tables"]

        def cur():
            a = current_action()
            if a is None:
                return None
            return env.handle_of.get(id(a), -1)

        def classify(e):
            if isinstance(e, UserExc):
                if e.n in env.thrown and env.thrown[e.n] is not e:
                    env.identity.append("exception %d came back as a different object" % e.n)
                return ["user", e.n]
            if isinstance(e, GeneratorExit):
                if e.args and e.args[0] == "mine" and env.thrown.get(("ge", e.args[1])) is not e:
                    env.identity.append("GeneratorExit came back as a different object")
                return "GeneratorExit"
            text = str(e)
            if isinstance(e, TypeError) and "just-started generator" in text:
                return "TypeErrorNonNone"
            if isinstance(e, ValueError) and "already executing" in text:
                return "AlreadyExecuting"
            if isinstance(e, RuntimeError) and "ignored GeneratorExit" in text:
                return "IgnoredExit"
            if isinstance(e, (ValueError, RuntimeError)) and ("Context" in text or "Token" in text):
                return "TokenError"
            return ["other", type(e).__name__, text[:200]]

        def make(g):
            f = generic
            if decorated:
                f = eliot_friendly_generator_function(generic)
            return f(g)

        def resume(who, g, inp):
            if g not in env.gens:
                env.gens[g] = make(g)
            gen = env.gens[g]
            if not env.done:
                env.events.append(["call", who, g, inp, cur()])
            # Some driver resumptions are issued from inside a *copy* of the driver's context (as an
            # event loop's call_soon or another thread would): same current action, different Context
            # object.  A wrapper that keeps the generator's own context is indifferent to this.
            env.nres = getattr(env, "nres", 0) + 1
            foreign = bool(case.get("foreign")) and decorated and who is None and env.nres % 2 == 0
            via = (lambda f, *a: contextvars.copy_context().run(f, *a)) if foreign else (lambda f, *a: f(*a))
            try:
                if inp[0] == "next":
                    out = ["ret", norm(via(next, gen))]
                elif inp[0] == "send":
                    out = ["ret", norm(via(gen.send, as_value(inp[1])))]
                elif inp[0] == "throw":
                    e = UserExc(inp[1])
                    env.thrown[inp[1]] = e
                    out = ["ret", norm(via(gen.throw, e))]
                elif inp[0] == "throw_ge":
                    env.nge += 1
                    e = GeneratorExit("mine", env.nge)
                    env.thrown[("ge", env.nge)] = e
                    out = ["ret", norm(via(gen.throw, e))]
                else:
                    out = ["ret", via(gen.close)]
            except StopIteration as e:
                out = ["stop", norm(e.value)]
            except BaseException as e:
                out = ["raise", classify(e)]
            if not env.done:
                env.events.append(["ret", who, g, out, cur()])
            return out

        def do_step(who, st, exc=None):
            if env.done:
                # late finalisation (cleanup / garbage collection of a suspended generator): touch nothing
                return
            if st[0] == "enter":
                before = cur()
                a = start_action(action_type="a%d" % st[1])
                env.actions[st[1]] = a
                env.handle_of[id(a)] = st[1]
                a.__enter__()
                if not env.done:
                    env.events.append(["op", who, ["enter", st[1]], True, before, cur()])
            elif st[0] == "exit":
                before = cur()
                a = env.actions[st[1]]
                try:
                    if exc is not None:
                        a.__exit__(type(exc), exc, exc.__traceback__)
                    else:
                        a.__exit__(None, None, None)
                except (ValueError, RuntimeError, AttributeError) as e:
                    if not env.done:
                        env.events.append(["op", who, ["exit", st[1]], False, before, cur()])
                    if who is not None:
                        raise
                else:
                    if not env.done:
                        env.events.append(["op", who, ["exit", st[1]], True, before, cur()])
            elif st[0] == "probe":
                before = cur()
                env.probes += 1
                log_message(message_type="p", n=env.probes)
                if not env.done:
                    env.events.append(["op", who, ["probe"], True, before, cur()])
            elif st[0] == "resume":
                resume(who, st[1], st[2])
            elif st[0] == "create":
                if st[1] not in env.gens:
                    env.gens[st[1]] = make(st[1])

        def generic(g):
            table = tables[g]
            state = 0
            bi = ("send", None)
            while True:
                if env.done:
                    return None
                entry = table[state]
                if bi[0] == "send":
                    seg = entry[0]
                    exc = None
                elif isinstance(bi[1], GeneratorExit):
                    seg = entry[2]
                    exc = bi[1]
                else:
                    seg = entry[1]
                    exc = bi[1]
                for st in seg["steps"]:
                    do_step(g, st, exc)
                end = seg["end"]
                if end[0] == "yield":
                    v = end[1][1] if end[1][0] == "const" else (bi[1] if bi[0] == "send" else None)
                    state = end[2]
                    try:
                        x = yield v
                        bi = ("send", x)
                    except BaseException as e:
                        bi = ("throw", e)
                elif end[0] == "return":
                    return end[1][1] if end[1][0] == "const" else (bi[1] if bi[0] == "send" else None)
                else:
                    if end[1][0] == "new":
                        raise UserExc(end[1][1])
                    if bi[0] == "throw":
                        raise bi[1]
                    raise UserExc(0)

        def main():
            for st in case["script"]:
                do_step(None, st)
            env.final = cur()
            env.done = True
            for g in sorted(env.gens):
                try:
                    env.gens[g].close()
                except BaseException:
                    pass

        contextvars.Context().run(main)
        # parent attribution from the log
        parent = {}
        for m in env.msgs:
            if m.get("action_status") == "started":
                parent[(m["task_uuid"], tuple(m["task_level"][:-1]))] = int(m["action_type"][1:])
        probe_parents = {}
        action_parents = {}
        for m in env.msgs:
            lvl = m["task_level"]
            if m.get("message_type") == "p":
                probe_parents[m["n"]] = parent.get((m["task_uuid"], tuple(lvl[:-1])))
            elif m.get("action_status") == "started":
                own = tuple(lvl[:-1])
                action_parents[int(m["action_type"][1:])] = parent.get((m["task_uuid"], own[:-1])) if own else None
        return env, probe_parents, action_parents

    env, probe_parents, action_parents = run(True)
    events, final, identity = env.events, env.final, env.identity
    tenv, _, _ = run(False)
    rets = lambda evs: [[e[1], e[2], e[3]] for e in evs if e[0] == "ret"]
    n_probes = sum(1 for e in events if e[0] == "op" and e[2][0] == "probe")
    return {"events": events, "final": final, "identity": identity,
            "probe_parents": [probe_parents.get(i + 1, "missing") for i in range(n_probes)],
            "action_parents": sorted([h, p] for h, p in action_parents.items()),
            "twin_rets": rets(tenv.events), "twin_identity": tenv.identity,
            "twin_ops": [[e[1], e[2], e[3]] for e in tenv.events if e[0] == "op" and e[1] is not None]}


# ----------------------------------------------------------------------- model
def _val(v):
    return None if v is None else Some(Nat(v))


def _input(i):
    if i[0] == "next":
        return C("Next")
    if i[0] == "send":
        return C("Send", _val(i[1]))
    if i[0] == "throw":
        return C("Throw", C("UserExn", Nat(i[1])))
    if i[0] == "throw_ge":
        return C("Throw", C("GeneratorExit"))
    return C("Close")


def _tstep(s):
    if s[0] == "enter":
        return C("TEnter", Nat(s[1]))
    if s[0] == "exit":
        return C("TExit", Nat(s[1]))
    if s[0] == "probe":
        return C("TProbe")
    return C("TResume", Nat(s[1]), _input(s[2]))


def _tval(v):
    return C("VConst", _val(v[1])) if v[0] == "const" else C("VInput")


def _tend(e):
    if e[0] == "yield":
        return C("TYield", _tval(e[1]), Nat(e[2]))
    if e[0] == "return":
        return C("TReturn", _tval(e[1]))
    return C("TRaise", C("XNew", Nat(e[1][1])) if e[1][0] == "new" else C("XInput"))


def _tseg(s):
    return ([_tstep(x) for x in s["steps"]], _tend(s["end"]))


def _dstep(s):
    if s[0] == "enter":
        return C("DEnter", Nat(s[1]))
    if s[0] == "exit":
        return C("DExit", Nat(s[1]))
    if s[0] == "probe":
        return C("DProbe")
    if s[0] == "create":
        return C("DCreate", Nat(s[1]))
    return C("DResume", Nat(s[1]), _input(s[2]))


def model_scripts(case):
    tables = [[(_tseg(e[0]), _tseg(e[1]), _tseg(e[2])) for e in t] for t in case["tables"]]
    script = [_dstep(s) for s in case["script"]]
    fuel = len(case["tables"]) + 2
    return "run_tables false %d %s %s" % (fuel, to_coq(tables), to_coq(script))


def _opt(v):
    return None if v is None else v[1]


def _m_input(i):
    if i == "Next":
        return ["next"]
    if i == "Close":
        return ["close"]
    if i[0] == "Send":
        return ["send", _opt(i[1])]
    e = i[1]
    if e == "GeneratorExit":
        return ["throw_ge"]
    return ["throw", e[1]]


def _m_exn(e):
    if isinstance(e, tuple):
        return ["user", e[1]]
    return e


def _m_outcome(o):
    if o[0] == "ORet":
        return ["ret", _opt(o[1])]
    if o[0] == "OStop":
        return ["stop", _opt(o[1])]
    return ["raise", _m_exn(o[1])]


def _m_op(o):
    if o == "OpProbe":
        return ["probe"]
    return ["enter" if o[0] == "OpEnter" else "exit", o[1]]


def model_obs_scripts(case, v):
    evs, final = v
    out = []
    for e in evs:
        if e[0] == "BCall":
            out.append(["call", _opt(e[1]), e[2], _m_input(e[3]), _opt(e[4])])
        elif e[0] == "BOp":
            out.append(["op", _opt(e[1]), _m_op(e[2]), e[3], _opt(e[4]), _opt(e[5])])
        else:
            out.append(["ret", _opt(e[1]), e[2], _m_outcome(e[3]), _opt(e[4])])
    return {"events": out, "final": _opt(final)}


def project_scripts(case, obs):
    return {"events": obs["events"], "final": obs["final"]}


# ------------------------------------------------- the property, executable
def _starts(i):
    return i[0] == "next" or (i[0] == "send" and i[1] is None)


def oracle_scripts(case, obs):
    """Written from the property text, independent of the model."""
    if obs["identity"]:
        return "thrown exception did not reach the other side unchanged: %s" % obs["identity"][0]
    events = obs["events"]
    # (1) own context: first-resumption context + the generator's own enters/exits
    own = {}         # g -> expected current action
    started = set()
    dead = set()
    tokens = {}      # handle -> value restored by its __exit__
    pending = []     # stack of (who, g, cur at call)
    expect = {None: None}   # who -> expected current action (None = driver, starts with no action)
    probe_i = 0
    action_parents = dict((h, p) for h, p in obs["action_parents"])
    for k, e in enumerate(events):
        if e[0] == "call":
            _, who, g, inp, c = e
            if c != expect.get(who, c):
                return "event %d: %s calls generator %d from action %r, but its context was %r" % (k, _w(who), g, c, expect.get(who))
            pending.append((who, g, c))
            if g not in started and g not in dead:
                if _starts(inp):
                    started.add(g)
                    own[g] = c
                    expect[g] = c
                elif inp[0] in ("throw", "throw_ge", "close"):
                    dead.add(g)
        elif e[0] == "ret":
            _, who, g, out, c = e
            w0, g0, c0 = pending.pop()
            if c != c0:
                return ("event %d: resuming generator %d changed the current action of %s from %r to %r"
                        % (k, g, _w(who), c0, c))
        else:
            _, who, op, ok, before, after = e
            if who is not None and who not in started:
                return "event %d: generator %d ran code without having been started" % (k, who)
            if before != expect[who]:
                return ("event %d: %s ran %r with current action %r; its own context says %r"
                        % (k, _w(who), op, before, expect[who]))
            if op[0] == "enter":
                tokens[op[1]] = before
                want = op[1]
                if action_parents.get(op[1], "missing") != before:
                    return ("event %d: action %d started by %s is logged as a child of %r, expected %r"
                            % (k, op[1], _w(who), action_parents.get(op[1], "missing"), before))
            elif op[0] == "exit":
                want = tokens.get(op[1], before) if ok else before
            else:
                want = before
                lp = obs["probe_parents"][probe_i]
                probe_i += 1
                if lp != before:
                    return ("event %d: message logged by %s is attributed to action %r, expected its own current action %r"
                            % (k, _w(who), lp, before))
            if not ok:
                return "event %d: %s could not leave its own action %r" % (k, _w(who), op)
            if after != want:
                return "event %d: after %r %s has current action %r, expected %r" % (k, op, _w(who), after, want)
            expect[who] = after
    if obs["final"] != expect[None]:
        return "driver ends with current action %r, expected %r" % (obs["final"], expect[None])
    # (2) transparency: same observable results as the undecorated generator
    rets = [[e[1], e[2], e[3]] for e in events if e[0] == "ret"]
    if rets != obs["twin_rets"]:
        for k, (a, b) in enumerate(zip(rets, obs["twin_rets"])):
            if a != b:
                return ("resumption %d (generator %d resumed by %s): decorated gives %r, undecorated gives %r"
                        % (k, a[1], _w(a[0]), a[2], b[2]))
        return "decorated run has %d resumptions, undecorated %d" % (len(rets), len(obs["twin_rets"]))
    ops = [[e[1], e[2], e[3]] for e in events if e[0] == "op" and e[1] is not None]
    if ops != obs["twin_ops"]:
        for k, (a, b) in enumerate(zip(ops + [None], obs["twin_ops"] + [None])):
            if a != b:
                return ("step %d executed by the generator bodies: decorated %r, undecorated %r "
                        "(a send/throw/close did not reach the body unchanged)" % (k, a, b))
    for e in events:
        if e[0] == "ret" and e[3][0] == "raise" and isinstance(e[3][1], list) and e[3][1][0] == "other":
            return "unexpected exception crossing the wrapper: %r" % (e[3][1],)
    return None


def _w(who):
    return "the driver" if who is None else "generator %d" % who


def nontrivial_scripts(case, obs):
    events = obs.get("events", [])
    first_ctx = {}
    driver_changed = {}
    crossed = 0
    moved = 0
    for e in events:
        if e[0] == "call" and e[2] not in first_ctx:
            first_ctx[e[2]] = e[4]
        if e[0] == "op" and e[1] is None and e[2][0] != "probe":
            for g in first_ctx:
                driver_changed[g] = True
        if e[0] == "op" and e[1] is not None and driver_changed.get(e[1]):
            moved += 1
        if e[0] == "ret" and (e[3][1] is not None):
            crossed += 1
    if moved or crossed:
        return [case["tables"], case["script"]]
    return None


def describe_scripts(case):
    out = ["gens%d" % len(case["tables"])]
    kinds = set()
    for s in case["script"]:
        if s[0] == "resume":
            kinds.add("drv-" + s[2][0])
    for t in case["tables"]:
        for entry in t:
            for i, seg in enumerate(entry):
                for st in seg["steps"]:
                    if st[0] == "resume":
                        kinds.add("nested")
                    if st[0] == "enter":
                        kinds.add("gen-enter")
                if i == 2 and seg["end"][0] == "yield":
                    kinds.add("close-ignored")
                if i == 1 and seg["end"][0] == "yield":
                    kinds.add("throw-caught")
    sc = case["script"]
    for i, s in enumerate(sc):
        if s[0] == "create":
            for t in sc[i + 1:]:
                if t[0] in ("enter", "exit"):
                    kinds.add("ctx-change-after-create")
                    break
                if t[0] == "resume" and t[1] == s[1]:
                    break
    return out + sorted(kinds)


def shrink_scripts(case):
    # never remove an "enter": a later "exit" of the same action would become ill-formed
    sc = case["script"]
    for i in range(len(sc) - 1, -1, -1):
        if sc[i][0] != "enter":
            yield {"tables": case["tables"], "script": sc[:i] + sc[i + 1:]}
    for g, t in enumerate(case["tables"]):
        for ei, entry in enumerate(t):
            for si, seg in enumerate(entry):
                for k in range(len(seg["steps"])):
                    if seg["steps"][k][0] == "enter":
                        continue
                    t2 = [[dict(s) for s in en] for en in t]
                    t2[ei][si] = {"steps": seg["steps"][:k] + seg["steps"][k + 1:], "end": seg["end"]}
                    yield {"tables": case["tables"][:g] + [t2] + case["tables"][g + 1:], "script": sc}


FAMILIES = [
    Family("scripts", gen_scripts, impl_scripts, model_scripts, model_obs_scripts, oracle_scripts,
           nontrivial_scripts, imports=["Model.Generators"], project=project_scripts, corpus=CORPUS,
           shrink=shrink_scripts, describe=describe_scripts, shard=100, coq_shard=30),
]

LEVEL_TEXT = ("Coq theorems about the wrapper trampoline for all generator bodies and all driver scripts: own context, "
              "driver context unchanged, transparency (and its refutation for the pre-fix wrapper); tied to /repo by running "
              "generated scripts through the real eliot_friendly_generator_function and through the model evaluated in Coq.")
LEVEL_NOTE = ("Trusted: Coq kernel; hand-written model (Model/Generators.v) of the wrapper, of contextvars and of the generator "
              "protocol, tied by correspondence; Twisted is not installed, so eliot.twisted.inline_callbacks is covered only "
              "through the wrapper theorems ('hence'), never executed.")


# ---- several decorated generators that each do `with shared.context():` on ONE shared action across their yields ----
def gen_shared_ctx(rng, tier):
    out = []
    for _ in range(60 if tier == "quick" else 1000):
        ngen = rng.choice([2, 2, 3])
        # every generator: probe, enter the shared action's context, yield ..., leave it, probe, return
        yields = [rng.randrange(1, 4) for _ in range(ngen)]
        order = []
        left = list(yields)
        started = [False] * ngen
        while any(x >= 0 for x in left):
            g = rng.choice([i for i in range(ngen) if left[i] >= 0])
            order.append(g)
            left[g] -= 1
        out.append({"ngen": ngen, "yields": yields, "order": order, "own": [rng.random() < 0.8 for _ in range(ngen)]})
    return out


def impl_shared_ctx(case):
    from eliot import _output, start_action, current_action
    from eliot._generators import eliot_friendly_generator_function
    d = _output.Destinations()
    _output.Logger._destinations = d
    d.add(lambda m: None)
    names = {}

    def name():
        a = current_action()
        return None if a is None else names.get(id(a), "?")
    shared = start_action(action_type="shared")
    names[id(shared)] = "shared"
    log = []

    @eliot_friendly_generator_function
    def gen(i, k):
        log.append([i, "start", name()])
        with shared.context():
            for j in range(k):
                log.append([i, "inside", name()])
                yield j
                log.append([i, "resumed", name()])
        log.append([i, "left", name()])
        yield "after"
        log.append([i, "end", name()])
    gens, driver = {}, []
    errors = []
    for g in case["order"]:
        try:
            if g not in gens:
                if case["own"][g]:
                    with start_action(action_type="own%d" % g) as a:
                        names[id(a)] = "own%d" % g
                        gens[g] = gen(g, case["yields"][g])
                        next(gens[g])
                        driver.append([g, name()])
                else:
                    gens[g] = gen(g, case["yields"][g])
                    next(gens[g])
                    driver.append([g, name()])
            else:
                next(gens[g])
                driver.append([g, name()])
        except StopIteration:
            pass
        except BaseException as e:
            errors.append("generator %d: %s: %s" % (g, type(e).__name__, e))
    shared.finish()
    return {"log": log, "driver": driver, "errors": errors}


def oracle_shared_ctx(case, obs):
    if obs["errors"]:
        return obs["errors"][0]
    for i, what, cur in obs["log"]:
        base = "own%d" % i if case["own"][i] else None
        want = "shared" if what in ("inside", "resumed") else base
        if cur != want:
            return "generator %d at %r: current action is %r, its own context says %r" % (i, what, cur, want)
    # driver probes: after every resumption the driver's current action is what it was before it
    seen_first = set()
    for g, cur in obs["driver"]:
        expected = ("own%d" % g) if (case["own"][g] and g not in seen_first) else None
        seen_first.add(g)
        if cur != expected:
            return "after resuming generator %d the driver's current action is %r, it was %r before" % (g, cur, expected)
    return None


FAMILIES.append(Family("shared_context", gen_shared_ctx, impl_shared_ctx, None, None, oracle_shared_ctx,
                       lambda case, obs: json.dumps(case), shard=30, case_timeout=30))
