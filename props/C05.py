"""C05 — concurrent threads and coroutines never leak action context into each other."""
import json

from lib import progs, oracles
from lib.framework import Family
from lib.coqbridge import to_coq, Nat

ID = "C05"
PROPS_FILE = "Props/C05.v"
TRUSTED = ["contextvars: a new thread starts with an empty context, asyncio.create_task copies the creator's context "
           "(runtime facts, exercised by the correspondence, not provable)"]
ASSUMPTIONS = ["threads switch at logging-call boundaries (one model-level operation per scheduler grant); coroutines switch at awaits; "
               "an action is used by one thread/task only (as the documentation requires)"]
RULE = ("threads: 2-3 generated programs run by real threads under a cooperative scheduler, 3 seed-chosen schedules per case, the "
        "executed schedule replayed in the model; asyncio: generated task trees (tasks created inside actions, awaited before the action "
        "ends) driven by a seed-chosen interleaving of await points; non-trivial when at least two contexts logged inside actions")
LEVEL_TEXT = ("Coq theorems (frame: calls in one context never change another context's current action, for any op and any run; "
              "non-interference: under any interleaving a context observes exactly the current_action() values of its own calls; "
              "asyncio task inherits its creator's action) + correspondence of probes and per-destination message sequences on the "
              "executed schedules + the statement: every probe equals the innermost open action of that context, children attach to "
              "the action current in their own context, parsed forests are equal across schedules up to sibling order.")
LEVEL_NOTE = ("Trusted: Coq kernel; model Core/Prog/Sched tied by correspondence; contextvars semantics. Interleavings finer than a "
              "logging call (inside eliot's own functions) are the subject of C12/C16, not of this property's quantifier.")


# ---------------------------------------------------------------- threads
def gen_threads(rng, tier):
    n = 40 if tier == "quick" else 600
    out = []
    for i in range(n):
        nt = rng.choice([2, 2, 3])
        g = progs.Gen(rng, depth=3, width=3, p_handoff=0.0, p_typed=0.1, p_raise=0.2, p_reenter=0.1, p_fault_ser=0.0,
                      p_finish_again=0.0, p_actlog=0.05)
        g.class_ids = g.gen_classes(3) + [2, 8, 9, 4, 5, 6]
        threads = []
        for t in range(nt):
            g.finished = []
            threads.append(g.stmts(g.depth, [], t + 1))
        dests = progs.gen_dests(rng, g, rng.randrange(1, 3), 0.4)
        total = 40 * nt
        scheds = [[rng.randrange(nt) for _ in range(rng.randrange(0, total))] for _ in range(3)]
        scheds[0] = []      # round-robin
        out.append({"classes": g.classes, "registry": [], "pre": [["add", dests]], "threads": threads, "scheds": scheds,
                    "prog": [s for th in threads for s in th]})
    return out


def impl_threads(case):
    from lib.sched import Coop
    runs = []
    for sched in case["scheds"]:
        it = progs.Interp(case)
        for o in case["pre"]:
            it.preop(o)
        nt = len(case["threads"])
        co = Coop(nt)
        it.gate = lambda c: co.gate(c - 1)
        outcomes = [None] * nt

        def make(t):
            def body():
                try:
                    it.block(case["threads"][t], t + 1)
                except progs.LoggingRaised:
                    outcomes[t] = "logging_raised"
                except BaseException as e:
                    outcomes[t] = it.exc_id(e)
            return body
        try:
            trace = co.run([make(t) for t in range(nt)], sched)
        except RuntimeError as e:
            runs.append({"hang": str(e)})
            continue
        obs = {"dests": [[i, [progs.canon_msg(m, it) for m in it.dests[i].log]] for i in progs.all_dest_ids(case)],
               "probes": it.probes, "outcome": None}
        obs = progs.rename_uuids(obs)
        it.check_renders()
        obs.update({"sched": trace, "outcomes": outcomes, "notes": it.notes, "arec": it.arec, "errors": co.errors,
                    "raw": {str(i): [progs.raw_msg(m) for m in it.dests[i].log] for i in progs.all_dest_ids(case)},
                    "forest": unordered_forest(it.dests[1].log)})
        runs.append(obs)
    return {"runs": runs}


def unordered_forest(msgs):
    """parse with the real parser; canonical form that forgets sibling order and positions"""
    from eliot.parse import Parser, WrittenAction
    try:
        tasks = list(Parser.parse_stream([dict(m) for m in msgs]))
    except Exception as e:
        return "error:" + type(e).__name__

    def canon(n):
        if isinstance(n, WrittenAction):
            return ["A", n.action_type, n.status, n.start_message.contents.get("f19") if n.start_message else None,
                    sorted((x for x in (canon(c) for c in n.children) if x != ["R"]), key=json.dumps)]
        c = n.contents
        mt = c.get("message_type")
        if mt == "eliot:destination_failure":
            return ["R"]
        return ["M", mt, sorted([k, json.dumps(v, sort_keys=True, default=str)] for k, v in c.items() if k.startswith("f"))]
    # failure reports are not the program's messages; where they land depends on which call of a
    # mask-driven destination fails, i.e. on the schedule: they are left out of the comparison
    return sorted((x for x in (canon(t.root()) for t in tasks) if x != ["R"]), key=json.dumps)


def model_threads(case):
    return None


def post_threads(cases, obs_list):
    from lib import coqbridge
    exprs, index = [], []
    for ci, (case, obs) in enumerate(zip(cases, obs_list)):
        cfg = to_coq(progs.c_config(case))
        pre = to_coq([progs.c_preop(o) for o in case["pre"]])
        progs_c = to_coq([progs.c_stmts(th) for th in case["threads"]])
        ids = to_coq([Nat(i) for i in progs.all_dest_ids(case)])
        for ri, r in enumerate(obs["runs"]):
            if "hang" in r:
                continue
            exprs.append("observe (run_threads %s %s %s %s) %s" % (cfg, pre, progs_c, to_coq([Nat(t) for t in r["sched"]]), ids))
            index.append((ci, ri))
    vals = coqbridge.eval_in_coq(["Model.Core", "Model.Prog", "Model.Sched"], exprs, shard=30, jobs=12)
    out = [{"runs": [None] * len(o["runs"])} for o in obs_list]
    for (ci, ri), v in zip(index, vals):
        traces, probes = v
        m = {"dests": [[i, [progs.m_msg(x) for x in ms]] for i, ms in traces],
             "probes": [[c, (h[1] if isinstance(h, tuple) else None)] for c, h in probes], "outcome": None}
        m = progs.rename_uuids(m)
        out[ci]["runs"][ri] = {"dests": m["dests"], "probes": m["probes"]}
    return out


def project_threads(case, obs):
    return {"runs": [None if "hang" in r else {"dests": r["dests"], "probes": r["probes"]} for r in obs["runs"]]}


def oracle_threads(case, obs):
    forests = []
    for r, sched in zip(obs["runs"], case["scheds"]):
        if "hang" in r:
            return "run did not finish: %s" % r["hang"]
        if r["errors"]:
            return "thread died: %r" % r["errors"]
        bad = oracles.note_failures(r, ("probe_mismatch", "logging_raised", "foreign_exception"))
        if bad:
            return bad
        fake = {"prog": case["prog"], "classes": case["classes"], "registry": []}
        bad = oracles.oracle_c04(fake, r)
        if bad:
            return bad
        for t, th in enumerate(case["threads"]):
            want = oracles.static_outcome(th)
            if r["outcomes"][t] != want:
                return "thread %d ended with %r, expected %r" % (t, r["outcomes"][t], want)
        if isinstance(r["forest"], str):
            return "real parser failed: %s" % r["forest"]
        forests.append(r["forest"])
    for f in forests[1:]:
        if f != forests[0]:
            return "parsed trees differ between schedules (beyond the order of concurrent siblings)"
    return None


def nontrivial_threads(case, obs):
    if not isinstance(obs, dict) or not obs.get("runs") or "hang" in obs["runs"][0]:
        return None
    ctxs = {c for c, h in obs["runs"][0]["probes"] if h is not None}
    return json.dumps([case["threads"], case["scheds"]]) if len(ctxs) >= 2 else None


# ---------------------------------------------------------------- asyncio
# task := {"id": c, "body": [step...]};  step := ["msg", t] | ["act", h, t, [step...]] | ["spawn", task, join_here] | ["await"]
def gen_async(rng, tier):
    n = 40 if tier == "quick" else 600
    out = []
    for i in range(n):
        st = {"c": 0, "h": 0}

        def body(depth):
            steps = []
            for _ in range(rng.randrange(1, 4)):
                r = rng.random()
                if depth > 0 and r < 0.4:
                    st["h"] += 1
                    steps.append(["act", st["h"], rng.randrange(10, 14), body(depth - 1)])
                elif depth > 0 and r < 0.6 and st["c"] < 4:
                    st["c"] += 1
                    cid = st["c"]
                    steps.append(["spawn", {"id": cid, "body": body(depth - 1)}])
                elif r < 0.8:
                    steps.append(["msg", rng.randrange(10, 14)])
                else:
                    steps.append(["await"])
            return steps
        root = {"id": 0, "body": body(3)}
        out.append({"root": root, "scheds": [[rng.randrange(5) for _ in range(rng.randrange(0, 60))] for _ in range(3)]})
    return out


def impl_async(case):
    import asyncio
    import eliot
    from eliot import _output
    runs = []
    for sched in case["scheds"]:
        dest = []
        d = _output.Destinations()
        _output.Logger._destinations = d
        d.add(dest.append)
        probes = []
        notes = []
        handle_of = {}
        pending = list(sched)
        order = []

        async def turn(cid, waiting):
            # yield to the event loop a schedule-chosen number of times: varies the interleaving of the tasks
            k = pending.pop(0) % 4 if pending else 0
            for _ in range(k):
                await asyncio.sleep(0)
            order.append(cid)

        def probe(cid, stack):
            a = eliot.current_action()
            got = None if a is None else handle_of.get(id(a), -1)
            want = stack[-1] if stack else None
            probes.append([cid, got])
            if got != want:
                notes.append("probe_mismatch:ctx%d:got=%s:want=%s" % (cid, got, want))

        async def run_body(cid, steps, stack, waiting):
            children = []
            for s in steps:
                await turn(cid, waiting)
                if s[0] == "msg":
                    eliot.log_message(message_type="type%d" % s[1], f19=-1, ctx=cid)
                elif s[0] == "await":
                    pass
                elif s[0] == "act":
                    with eliot.start_action(action_type="type%d" % s[2], f19=s[1]) as a:
                        handle_of[id(a)] = s[1]
                        probe(cid, stack + [s[1]])
                        await run_body(cid, s[3], stack + [s[1]], waiting)
                        probe(cid, stack + [s[1]])
                elif s[0] == "spawn":
                    t = s[1]
                    # the child inherits the action current here; joined before the enclosing block ends
                    children.append(asyncio.ensure_future(run_task(t, list(stack), waiting)))
                probe(cid, stack)
            for ch in children:
                await ch
            probe(cid, stack)

        async def run_task(task, inherited, waiting):
            probe(task["id"], inherited)
            await run_body(task["id"], task["body"], inherited, waiting)

        try:
            asyncio.run(asyncio.wait_for(run_task(case["root"], [], {}), 20))
            err = None
        except Exception as e:
            err = type(e).__name__
        runs.append({"error": err, "notes": notes, "probes": probes, "n_msgs": len(dest),
                     "forest": unordered_forest(dest), "placement": oracles.placement([progs.raw_msg(m) for m in dest]),
                     "parents": parent_check(dest)})
    return {"runs": runs}


def parent_check(msgs):
    """every message/action logged by task code is a child of the action that was current: checked from markers:
    a start message with marker h at level L+[k,1] must have a parent action whose start message is at L+[1]"""
    starts = {}
    for m in msgs:
        if m.get("action_status") == "started":
            starts[(m["task_uuid"], tuple(m["task_level"][:-1]))] = m.get("f19")
    return len(starts)


def oracle_async(case, obs):
    forests = []
    for r in obs["runs"]:
        if r["error"]:
            return "asyncio run failed: %s" % r["error"]
        if r["notes"]:
            return r["notes"][0]
        if r["placement"]:
            return "placement broken under interleaving: %s" % r["placement"]
        if isinstance(r["forest"], str):
            return "real parser failed: %s" % r["forest"]
        forests.append(r["forest"])
    want = expected_async_forest(case["root"])
    for f in forests:
        if f != want:
            return "parsed forest differs from the task structure (attribution to the wrong action), or differs between schedules"
    return None


def expected_async_forest(root):
    """what the program means: a task's steps are children of the action current where the task was created"""
    def steps_nodes(task_id, steps):
        out = []
        for s in steps:
            if s[0] == "msg":
                out.append(["M", "type%d" % s[1], [["f19", "-1"]]])
            elif s[0] == "act":
                out.append(["A", "type%d" % s[2], "succeeded", s[1], sorted(steps_nodes(task_id, s[3]), key=json.dumps)])
            elif s[0] == "spawn":
                out.extend(steps_nodes(s[1]["id"], s[1]["body"]))
        return out
    return sorted(steps_nodes(0, root["body"]), key=json.dumps)


def _fix_forest(f):
    return f


FAMILIES = [
    Family("threads", gen_threads, impl_threads, model_threads, None, oracle_threads, nontrivial_threads,
           imports=["Model.Core", "Model.Prog", "Model.Sched"], project=project_threads, shard=10, case_timeout=60,
           describe=lambda c: ["threads:%d" % len(c["threads"])] + progs.describe({"prog": c["prog"], "pre": c["pre"]})),
    Family("asyncio", gen_async, impl_async, None, None, oracle_async,
           lambda case, obs: json.dumps(case) if isinstance(obs, dict) and obs["runs"] and obs["runs"][0].get("n_msgs", 0) >= 3 else None,
           shard=10, case_timeout=60),
]
FAMILIES[0].post_model = post_threads


# ---- dispatcher/worker scripts: an action created in one context is run in another -----------------------
from lib import oplists


def gen_mt(rng, tier):
    return [oplists.gen_script_mt(rng, n_ops=rng.randrange(8, 26)) for _ in range(60 if tier == "quick" else 1200)]


def oracle_mt(case, obs):
    bad = oracles.note_failures(obs, ("probe_mismatch", "logging_raised", "foreign_exception", "hang", "thread_failed"))
    if bad:
        return bad
    for i, ms in obs.get("raw", {}).items():
        bad = oplists.attribution(case, ms)
        if bad:
            return bad
    return None


def nontrivial_mt(case, obs):
    started = {}
    for c, o in case["ops"]:
        if o[0] == "start":
            started[o[1]] = c
    cross = any(o[0] == "enter" and started.get(o[1]) != c for c, o in case["ops"])
    return json.dumps(case["ops"]) if cross else None


FAMILIES.append(Family("dispatch", gen_mt, oplists.run_case, oplists.model_expr, oplists.model_obs, oracle_mt, nontrivial_mt,
                       imports=["Model.Core", "Model.Prog"], project=oplists.project, describe=oplists.describe,
                       shard=20, coq_shard=60, case_timeout=60))


# ---- continuations of DIFFERENT tasks that overlap in time (worker threads), often continuing from the same level ----
def gen_overlap(rng, tier):
    out = []
    for _ in range(40 if tier == "quick" else 600):
        n = rng.choice([2, 2, 3, 4])
        same = rng.random() < 0.7
        k = rng.choice([0, 1, 2, 3, 9, 10, 13])          # also positions >= 10: multi-digit components in the task id
        out.append({"tasks": [{"before": k if same else rng.choice([0, 1, 2, 3, 8, 11]), "via": rng.choice(["bytes", "str", "preserve"]),
                               "logs": rng.randrange(1, 4)} for _ in range(n)]})
    return out


def impl_overlap(case):
    import threading
    from eliot import _output, start_action, log_message, current_action, Action, preserve_context
    d = _output.Destinations()
    _output.Logger._destinations = d
    got = []
    d.add(lambda m: got.append(dict(m)))
    n = len(case["tasks"])
    barrier = threading.Barrier(n)
    errors, ids, seen = [], [], {}

    def body(i, t):
        a = current_action()
        seen[i] = [a.task_uuid if a is not None else None]
        barrier.wait(20)
        for j in range(t["logs"]):
            log_message("overlap:in", i=i, j=j)
        barrier.wait(20)

    workers = []
    for i, t in enumerate(case["tasks"]):
        with start_action(action_type="overlap:task", i=i) as act:
            for j in range(t["before"]):
                log_message("overlap:before", i=i)
            if t["via"] == "preserve":
                f = preserve_context(lambda i=i, t=t: body(i, t))
                ids.append(None)
            else:
                tid = act.serialize_task_id()
                tid = tid.decode("ascii") if t["via"] == "str" else tid
                ids.append(tid if isinstance(tid, str) else tid.decode("ascii"))

                def f(i=i, t=t, tid=tid):
                    with Action.continue_task(task_id=tid):
                        body(i, t)
            uuid = act.task_uuid

        def run(f=f, i=i):
            try:
                f()
            except BaseException as e:
                errors.append("task %d: %s: %s" % (i, type(e).__name__, e))
        workers.append((threading.Thread(target=run), uuid))
    for w, _ in workers:
        w.start()
    for w, _ in workers:
        w.join(30)
    return {"errors": errors, "uuids": [u for _, u in workers], "seen": [seen.get(i) for i in range(n)],
            "msgs": [[m.get("task_uuid"), m.get("task_level"), m.get("message_type") or m.get("action_type"), m.get("action_status"), m.get("i")]
                     for m in got]}


def oracle_overlap(case, obs):
    if obs["errors"]:
        return "a continuation raised: %s" % obs["errors"][0]
    for i, t in enumerate(case["tasks"]):
        u = obs["uuids"][i]
        pos = t["before"] + 2          # start message, the messages before, then the reserved position
        if obs["seen"][i] is None or obs["seen"][i][0] != u:
            return "worker %d ran with current action of task %r, its own task is %r" % (i, obs["seen"][i], u)
        mine = [m for m in obs["msgs"] if m[2] == "overlap:in" and m[4] == i]
        if len(mine) != t["logs"]:
            return "worker %d logged %d messages, %d arrived" % (i, t["logs"], len(mine))
        for m in mine:
            if m[0] != u or m[1][:1] != [pos] or len(m[1]) != 2:
                return "a message logged by worker %d inside its continuation of task %s sits at %r of task %s" % (i, u[:8], m[1], m[0][:8])
        remote = [m for m in obs["msgs"] if m[0] == u and m[2] == "eliot:remote_task"]
        if sorted(m[3] for m in remote) != ["started", "succeeded"] or any(m[1][:1] != [pos] for m in remote):
            return "task %d: remote-task start/end messages are %r" % (i, [[m[1], m[3]] for m in remote])
    return None


FAMILIES.append(Family("overlapping_continuations", gen_overlap, impl_overlap, None, None, oracle_overlap,
                       lambda case, obs: json.dumps(case), shard=20, case_timeout=90))


# ---- asyncio tasks / threads that each do `with shared.context():` on ONE shared action, in every order of entering/leaving ----
def gen_shared_tasks(rng, tier):
    import itertools
    out = []
    # all interleavings of enter/exit for two tasks, then seed-chosen ones for three
    for order in sorted(set(itertools.permutations([0, 0, 1, 1]))):
        for mode in ("asyncio", "threads"):
            out.append({"n": 2, "order": list(order), "mode": mode})
    for _ in range(20 if tier == "quick" else 300):
        order = [0, 0, 1, 1, 2, 2]
        rng.shuffle(order)
        out.append({"n": 3, "order": order, "mode": rng.choice(["asyncio", "threads"])})
    return out


def impl_shared_tasks(case):
    import asyncio, threading
    from eliot import _output, start_action, current_action, log_message
    d = _output.Destinations()
    _output.Logger._destinations = d
    got = []
    d.add(lambda m: got.append(dict(m)))
    names = {}

    def name():
        a = current_action()
        return None if a is None else names.get(id(a), "?")
    shared = start_action(action_type="shared")
    names[id(shared)] = "shared"
    log, errors = [], []
    order = list(case["order"])
    n = case["n"]
    if case["mode"] == "asyncio":
        async def main():
            turn = [asyncio.Event() for _ in order]
            done = [asyncio.Event() for _ in order]
            steps = {i: [k for k, g in enumerate(order) if g == i] for i in range(n)}

            async def task(i):
                try:
                    with start_action(action_type="own%d" % i) as a:
                        names[id(a)] = "own%d" % i
                        await turn[steps[i][0]].wait()
                        with shared.context():
                            log.append([i, "inside", name()])
                            log_message("in", i=i)
                            done[steps[i][0]].set()
                            await turn[steps[i][1]].wait()
                            log.append([i, "still-inside", name()])
                        log.append([i, "left", name()])
                        log_message("after", i=i)
                        done[steps[i][1]].set()
                except BaseException as e:
                    errors.append("task %d: %s: %s" % (i, type(e).__name__, e))
                    for ev in done:
                        ev.set()
            ts = [asyncio.ensure_future(task(i)) for i in range(n)]
            for k in range(len(order)):
                turn[k].set()
                await asyncio.wait_for(done[k].wait(), 10)
            for t in ts:
                await t
        try:
            asyncio.run(asyncio.wait_for(main(), 30))
        except BaseException as e:
            errors.append("run: %s: %s" % (type(e).__name__, e))
    else:
        turn = [threading.Event() for _ in order]
        done = [threading.Event() for _ in order]
        steps = {i: [k for k, g in enumerate(order) if g == i] for i in range(n)}

        def task(i):
            try:
                with start_action(action_type="own%d" % i) as a:
                    names[id(a)] = "own%d" % i
                    turn[steps[i][0]].wait(10)
                    with shared.context():
                        log.append([i, "inside", name()])
                        log_message("in", i=i)
                        done[steps[i][0]].set()
                        turn[steps[i][1]].wait(10)
                        log.append([i, "still-inside", name()])
                    log.append([i, "left", name()])
                    log_message("after", i=i)
                    done[steps[i][1]].set()
            except BaseException as e:
                errors.append("task %d: %s: %s" % (i, type(e).__name__, e))
                for ev in done:
                    ev.set()
        ts = [threading.Thread(target=task, args=(i,)) for i in range(n)]
        for t in ts:
            t.start()
        for k in range(len(order)):
            turn[k].set()
            done[k].wait(10)
        for t in ts:
            t.join(10)
    shared.finish()
    parent = {}
    for m in got:
        if m.get("action_status") == "started":
            parent[(m["task_uuid"], tuple(m["task_level"][:-1]))] = m["action_type"]
    where = [[m.get("message_type"), m.get("i"), parent.get((m["task_uuid"], tuple(m["task_level"][:-1])))] for m in got if m.get("message_type") in ("in", "after")]
    return {"log": log, "errors": errors, "where": where}


def oracle_shared_tasks(case, obs):
    if obs["errors"]:
        return obs["errors"][0]
    for i, what, cur in obs["log"]:
        want = "shared" if what in ("inside", "still-inside") else "own%d" % i
        if cur != want:
            return "task %d %s `with shared.context()`: current action is %r, expected %r" % (i, what, cur, want)
    if len(obs["log"]) != 3 * case["n"]:
        return "only %d of %d checkpoints reached" % (len(obs["log"]), 3 * case["n"])
    for mt, i, par in obs["where"]:
        want = "shared" if mt == "in" else "own%d" % i
        if par != want:
            return "message %r of task %d was attributed to action %r, expected %r" % (mt, i, par, want)
    return None


FAMILIES.append(Family("shared_context_tasks", gen_shared_tasks, impl_shared_tasks, None, None, oracle_shared_tasks,
                       lambda case, obs: json.dumps(case), shard=20, case_timeout=90))


# ---- generator-based coroutines (eliot_friendly_generator_function): the generator family of C15 ------------------------
from props import C15 as _c15


def gen_generators(rng, tier):
    return _c15.gen_scripts(rng, tier)[:80 if tier == "quick" else 2500]


FAMILIES.append(Family("generators", gen_generators, _c15.impl_scripts, _c15.model_scripts, _c15.model_obs_scripts,
                       _c15.oracle_scripts, _c15.nontrivial_scripts, imports=["Model.Generators"],
                       project=_c15.project_scripts, shrink=_c15.shrink_scripts, describe=_c15.describe_scripts,
                       corpus=_c15.CORPUS, shard=100, coq_shard=30))
